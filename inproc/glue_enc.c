/* white-box glue, encoder side: includes lbzip2's encode.c so that the private encoder state is visible */
#include "encode.c"
#include "glue.h"

#include <stdlib.h>
#include <string.h>

void *
vg_enc_new(unsigned long mbs)
{
  struct encoder_state *e = xmalloc(encoder_alloc_size(mbs));

  encoder_init(e, mbs, CLUSTER_FACTOR);
  return e;
}

void
vg_enc_free(void *e)
{
  vg_free(e);
}

int
vg_collect(void *e, const uint8_t *buf, size_t len, size_t *left)
{
  size_t sz = len;
  int rv = collect(e, buf, &sz);

  *left = sz;
  return rv;
}

uint32_t
vg_enc_nblock(void *e)
{
  return ((struct encoder_state *)e)->nblock;
}

const uint8_t *
vg_enc_block(void *e)
{
  struct encoder_state *s = e;

  return (const uint8_t *)(s->SA + s->max_block_size + GROUP_SIZE);
}

int
vg_enc_rle_state(void *e)
{
  return ((struct encoder_state *)e)->rle_state;
}

/* what encode() does first ("Finalize initial RLE"): append the pending count byte; no sorting, no coding */
uint32_t
vg_enc_finish_rle(void *e, uint32_t *crc)
{
  struct encoder_state *s = e;
  uint8_t *block = (void *)(s->SA + s->max_block_size + GROUP_SIZE);

  if (s->rle_state >= 4) {
    assert(s->nblock < s->max_block_size);
    block[s->nblock++] = s->rle_state - 4;
    s->rle_state = 0;
  }
  *crc = s->block_crc;
  return s->nblock;
}

size_t
vg_encode(void *e, uint32_t *crc)
{
  return encode(e, crc);
}

void
vg_transmit(void *e, void *buf)
{
  transmit(e, buf);
}

int
vg_prefix(const uint16_t *mtfv, uint32_t nm, unsigned cluster_factor, struct vg_codes *out)
{
  unsigned long mbs = nm + 64u;
  struct encoder_state *s;
  unsigned t, v, as;
  uint32_t g;

  if (nm < 2 || nm > 900001u)
    return -1;
  if (mbs > MAX_BLOCK_SIZE)
    mbs = MAX_BLOCK_SIZE;
  s = xmalloc(encoder_alloc_size(mbs));
  encoder_init(s, mbs, cluster_factor);
  memcpy(s->SA, mtfv, nm * sizeof(uint16_t));
  s->nmtf = nm;
  as = mtfv[nm - 1] + 1;
  /* do_mtf() leaves the symbol frequencies in code[0][]; generate_initial_trees() reads them from there */
  for (v = 0; v < as; v++)
    s->u.s.code[0][v] = 0;
  for (g = 0; g < nm; g++)
    s->u.s.code[0][mtfv[g]]++;
  out->cost = generate_prefix_code(s);
  out->num_trees = s->u.s.num_trees;
  out->num_selectors = s->u.s.num_selectors;
  out->alpha = as;
  memset(out->length, 0, sizeof(out->length));
  for (t = 0; t < s->u.s.num_trees; t++)
    for (v = 0; v < as; v++)
      out->length[t][v] = s->u.s.length[s->u.s.tmap_new2old[t]][v];
  for (g = 0; g < s->u.s.num_selectors && g < sizeof(out->selector); g++)
    out->selector[g] = s->u.s.tmap_old2new[s->u.s.selector[g]];
  vg_free(s);
  return 0;
}

int32_t
vg_bwt(const uint8_t *text, int32_t n, uint8_t *last)
{
  /* same layout as encode(): block bytes behind the SA array, SA receives the transformed text */
  uint8_t *T = xmalloc((size_t)n + 8);
  int32_t *SA = xmalloc(((size_t)n + 64) * sizeof(int32_t));
  int32_t *bucket = xmalloc((65536 + 256) * sizeof(int32_t));
  int32_t idx, i;

  memcpy(T, text, (size_t)n);
  idx = divbwt(T, SA, bucket, n);
  /* divbwt leaves the BWT (last column) in the low bytes of SA: see do_mtf(), which reads bwt[i] = SA[i] bytes */
  for (i = 0; i < n; i++)
    last[i] = (uint8_t)SA[i];
  vg_free(T);
  vg_free(SA);
  vg_free(bucket);
  return idx;
}
