// In-process property targets for lbzip2's codec functions (through inproc/glue.h).
//
// Every property is a function of a byte "tape" (decoded into structured arguments by a small data provider), so
// that the same code is driven by rapidcheck (generation + shrinking, seeded through RC_PARAMS), by libFuzzer
// (coverage-guided; build with -DVT_LIBFUZZER=<property>) and by a plain replay of a saved tape.
//
//   vtargets list
//   vtargets rc <property>            RC_PARAMS="seed=N max_success=M max_size=S"   VT_STATS=<json out>
//   vtargets replay <property> FILE   exit 1 + message if the property fails on that tape
//   vtargets dfa                      exhaustive check of the scanner tables (C14)
//
// Oracles are independent of lbzip2: bzkit (strict reader / generator), a naive bit matcher, a greedy packing model,
// a package-merge optimum (self-checked against brute force), a naive rotation sort.
#include "../bzkit/bzgen.hpp"
#include "glue.h"

#include <arpa/inet.h>
#include <cinttypes>
#include <csignal>
#include <unistd.h>
#include <cstdlib>
#include <fstream>
#include <iostream>
#include <map>
#include <set>
#include <unordered_set>

#ifndef VT_LIBFUZZER
#include <rapidcheck.h>
#endif

using bzkit::gen::Tape;

// ------------------------------------------------------------------------------------------------ statistics
struct Stats {
  uint64_t evaluations = 0;
  std::unordered_set<uint64_t> nontrivial;
  std::map<std::string, uint64_t> labels;
  std::vector<std::string> samples;
  void label(const std::string &l) { labels[l]++; }
};
static Stats G;
// memcmp that tolerates empty ranges given as null pointers
static int mcmp(const void *a, const void *b, size_t n) { return n ? memcmp(a, b, n) : 0; }
static uint64_t fnv(const uint8_t *p, size_t n, uint64_t h = 1469598103934665603ull) {
  for (size_t i = 0; i < n; i++) h = (h ^ p[i]) * 1099511628211ull;
  return h;
}
static std::string hex(const uint8_t *p, size_t n, size_t lim = 48) {
  static const char *d = "0123456789abcdef";
  std::string s;
  for (size_t i = 0; i < n && i < lim; i++) s += d[p[i] >> 4], s += d[p[i] & 15];
  if (n > lim) s += "...";
  return s;
}
static void dump_stats() {
  const char *path = getenv("VT_STATS");
  if (!path) return;
  std::ofstream o(path);
  o << "{\"evaluations\":" << G.evaluations << ",\"distinct_nontrivial\":" << G.nontrivial.size() << ",\"labels\":{";
  bool first = true;
  for (auto &kv : G.labels) {
    o << (first ? "" : ",") << "\"" << kv.first << "\":" << kv.second;
    first = false;
  }
  o << "},\"samples\":[";
  for (size_t i = 0; i < G.samples.size(); i++) o << (i ? "," : "") << "\"" << G.samples[i] << "\"";
  o << "]}\n";
}
static void sample(const std::string &s) {
  if (G.samples.size() < 8) G.samples.push_back(s);
}

// The tape being evaluated, for the death callback: a sanitizer report or a failed assert() ends the process without
// unwinding, so the case would be lost (and no shrinking happens: such a tape is saved as generated).
static const uint8_t *g_cur = nullptr;
static size_t g_cur_n = 0;
extern "C" void __sanitizer_set_death_callback(void (*)(void));
static void save_current_case() {
  const char *failpath = getenv("VT_FAILFILE");
  if (failpath && g_cur) {
    FILE *f = fopen(failpath, "wb");
    if (f) {
      fwrite(g_cur, 1, g_cur_n, f);
      fclose(f);
    }
  }
  dump_stats();
}
static void on_abort(int) {
  save_current_case();
  _exit(98);
}

struct Verdict {
  bool ok = true;
  std::string why;
  void fail(const std::string &w) {
    if (ok) ok = false, why = w;
  }
};

// ------------------------------------------------------------------------------------------------ C14: scanner
static const uint64_t MAGIC48 = 0x314159265359ull;

static Verdict prop_scan(const uint8_t *data, size_t n) {
  Verdict V;
  Tape t(data, n);
  unsigned live = t.pick(32);
  unsigned nwords = t.pick(3) == 0 ? t.pick(6) : t.pick(81);
  unsigned skipsel = t.pick(8);
  unsigned skip = skipsel < 3 ? 0 : skipsel < 5 ? t.pick(40) : skipsel < 7 ? t.pick(200) : t.pick(3001);
  unsigned fill = t.pick(4);  // 0 zeros, 1 random, 2 ones, 3 pattern prefixes
  // the bit sequence: `live` buffered bits followed by the words
  size_t N = live + 32u * nwords;
  std::vector<uint8_t> S(N);
  uint32_t x = 17 + t.pick(65536);
  for (size_t i = 0; i < N; i++) {
    x = x * 1664525u + 1013904223u;
    S[i] = fill == 0 ? 0 : fill == 2 ? 1 : fill == 1 ? (x >> 17) & 1 : ((MAGIC48 >> (47 - (i % 47))) & 1);
  }
  // planted patterns (possibly overlapping partial ones)
  unsigned nplant = t.pick(4);
  for (unsigned k = 0; k < nplant && N >= 8; k++) {
    size_t at = t.pick((uint32_t)N);
    unsigned len = t.pick(4) == 0 ? 1 + t.pick(48) : 48;  // partial prefixes as near misses
    for (unsigned i = 0; i < len && at + i < N; i++) S[at + i] = (MAGIC48 >> (47 - i)) & 1;
    G.label(len == 48 ? "planted-full" : "planted-partial");
  }
  // pack
  uint64_t buff = 0;
  for (unsigned i = 0; i < live; i++) buff |= (uint64_t)S[i] << (63 - i);
  std::vector<uint32_t> words(nwords + 1);
  for (unsigned w = 0; w < nwords; w++) {
    uint32_t v = 0;
    for (int b = 0; b < 32; b++) v = (v << 1) | S[live + 32u * w + b];
    words[w] = htonl(v);
  }
  unsigned o_live = 0;
  uint64_t o_buff = 0;
  size_t o_idx = 0;
  int rv = vg_scan(words.data(), nwords, live, buff, skip, &o_live, &o_buff, &o_idx);
  // naive matcher: all occurrences whose 48+32 bits fit
  std::vector<size_t> occ;
  for (size_t s = 0; s + 80 <= N; s++) {
    bool m = true;
    for (int i = 0; i < 48 && m; i++) m = S[s + i] == ((MAGIC48 >> (47 - i)) & 1);
    if (m) occ.push_back(s);
  }
  bool any_nonfit = false;
  for (size_t s = (N >= 80 ? N - 79 : 0); s + 48 <= N; s++) {
    bool m = true;
    for (int i = 0; i < 48 && m; i++) m = S[s + i] == ((MAGIC48 >> (47 - i)) & 1);
    if (m && s + 80 > N) any_nonfit = true;
  }
  size_t consumed = live + 32u * o_idx - o_live;
  const size_t allowed_skip = (size_t)skip + 31;  // the scanner may round the skip distance up to a whole word
  if (o_live > 63 || 32u * o_idx + live < o_live) V.fail("inconsistent bit position after scan()");
  if (rv == VG_OK) {
    if (consumed < 80 || consumed > N)
      V.fail("OK at an impossible position");
    else {
      size_t s = consumed - 80;
      bool m = true;
      for (int i = 0; i < 48 && m; i++) m = S[s + i] == ((MAGIC48 >> (47 - i)) & 1);
      if (!m) V.fail("candidate reported where the 48-bit pattern is not present");
      for (size_t o : occ)
        if (o < s && o >= allowed_skip + 1)
          V.fail("an earlier occurrence that the skip distance does not cover was passed over");
      // remaining buffered bits must be the bits that follow
      for (unsigned i = 0; i < o_live && V.ok; i++)
        if (((o_buff >> (63 - i)) & 1) != S[consumed + i]) V.fail("bit buffer after scan() does not hold the following bits");
      G.label(s < live ? "found-in-buffered-bits" : "found-in-words");
    }
  } else if (rv == VG_MORE) {
    for (size_t o : occ)
      if (o >= allowed_skip + 1) V.fail("an occurrence lying wholly inside the block (with its 32-bit tail) was not reported");
    if (consumed != N) V.fail("MORE returned without consuming the whole block");
    if (any_nonfit) G.label("tail-does-not-fit");
  } else
    V.fail("scan() returned an unknown code");
  bool nontriv = !occ.empty() || any_nonfit;
  if (!occ.empty() && occ[0] < allowed_skip + 1 && skip > 0) G.label("occurrence-inside-skip-window");
  G.label(rv == VG_OK ? "rv-OK" : "rv-MORE");
  if (skip > live) G.label("skip>live");
  if (nontriv) {
    G.nontrivial.insert(fnv(data, n));
    sample("live=" + std::to_string(live) + " words=" + std::to_string(nwords) + " skip=" + std::to_string(skip) +
           " occurrences=" + std::to_string(occ.size()) + " rv=" + std::to_string(rv));
  }
  return V;
}

// exhaustive: table entries == KMP automaton of the pattern
static int check_dfa() {
  int P[48];
  for (int i = 0; i < 48; i++) P[i] = (MAGIC48 >> (47 - i)) & 1;
  // KMP: delta(q, b) = longest k such that P[0..k) is a suffix of P[0..q) + b
  auto delta = [&](int q, int b) {
    if (q == 48) return 48;
    std::vector<int> s(P, P + q);
    s.push_back(b);
    for (int k = std::min<int>(48, (int)s.size()); k > 0; k--) {
      bool m = true;
      for (int i = 0; i < k && m; i++) m = s[s.size() - k + i] == P[i];
      if (m) return k;
    }
    return 0;
  };
  int bad = 0, total = 0;
  if (vg_dfa_accept() != 48) {
    printf("ACCEPT is %u, expected 48\n", vg_dfa_accept());
    bad++;
  }
  for (int q = 0; q < 48; q++)
    for (int b = 0; b < 2; b++) {
      total++;
      if ((int)vg_dfa_mini(q, b) != delta(q, b)) {
        bad++;
        printf("mini_dfa[%d][%d] = %u, KMP says %d\n", q, b, vg_dfa_mini(q, b), delta(q, b));
      }
    }
  for (int q = 0; q <= 48; q++)
    for (int byte = 0; byte < 256; byte++) {
      int s = q;
      for (int i = 7; i >= 0; i--) s = delta(s, (byte >> i) & 1);
      total++;
      if ((int)vg_dfa_big(q, byte) != s) {
        bad++;
        if (bad < 20) printf("big_dfa[%d][0x%02x] = %u, KMP says %d\n", q, byte, vg_dfa_big(q, byte), s);
      }
    }
  printf("dfa entries checked: %d mismatches: %d\n", total, bad);
  return bad ? 1 : 0;
}

// ------------------------------------------------------------------------------------------------ C04: packing model
static size_t rle1_cost_prefix(const std::vector<uint8_t> &in, size_t from, size_t len) {
  // RLE1 size of in[from, from+len) with the trailing run flushed
  size_t cost = 0, i = from, end = from + len;
  while (i < end) {
    size_t j = i;
    while (j < end && in[j] == in[i] && j - i < 259) j++;
    size_t r = j - i;
    cost += r < 4 ? r : 5;
    i = j;
  }
  return cost;
}
static std::vector<uint8_t> rle1(const std::vector<uint8_t> &in, size_t from, size_t len) {
  std::vector<uint8_t> o;
  size_t i = from, end = from + len;
  while (i < end) {
    size_t j = i;
    while (j < end && in[j] == in[i] && j - i < 259) j++;
    size_t r = j - i;
    for (size_t k = 0; k < std::min<size_t>(r, 4); k++) o.push_back(in[i]);
    if (r >= 4) o.push_back((uint8_t)(r - 4));
    i = j;
  }
  return o;
}

static Verdict prop_collect(const uint8_t *data, size_t n) {
  Verdict V;
  Tape t(data, n);
  unsigned alpha = 1 + t.pick(3);
  unsigned capsel = t.pick(8);
  unsigned cap = capsel < 6 ? 1 + t.pick(40) : capsel == 6 ? 1 + t.pick(300) : 1 + t.pick(3000);
  unsigned len = capsel < 6 ? t.pick(65) : t.pick(4 * cap + 2);
  std::vector<uint8_t> in(len);
  unsigned style = t.pick(3);
  for (unsigned i = 0; i < len; i++) {
    if (style == 0)
      in[i] = (uint8_t)('a' + t.pick(alpha));
    else if (style == 1)  // long runs around 4 / 259
      in[i] = (uint8_t)('a' + ((i / (3 + (i % 7 == 0) * 255)) % alpha));
    else
      in[i] = (uint8_t)('a' + (t.pick(6) == 0 ? t.pick(alpha) : (i ? in[i - 1] - 'a' : 0)));
  }
  // composition into successive buffers
  std::vector<unsigned> pieces;
  {
    unsigned left = len;
    unsigned how = t.pick(4);
    while (left) {
      unsigned p = how == 0 ? left : how == 1 ? 1 : 1 + t.pick(std::min(left, 12u));
      p = std::min(p, left);
      pieces.push_back(p);
      left -= p;
    }
  }
  size_t pos = 0;      // consumed input
  size_t pi = 0, poff = 0;
  unsigned nblocks = 0;
  bool ran4 = false, capacity = false;
  while (pos < len && V.ok) {
    // model: longest prefix of the rest that fits
    size_t best = 0;
    for (size_t l = 1; pos + l <= len; l++) {
      if (rle1_cost_prefix(in, pos, l) <= cap)
        best = l;
      else
        break;  // cost is monotone in l
    }
    if (best == 0) {
      V.fail("model: nothing fits (cannot happen for cap >= 1)");
      break;
    }
    std::vector<uint8_t> want = rle1(in, pos, best);
    void *e = vg_enc_new(cap);
    size_t took = 0;
    bool full = false;
    while (pos + took < len && !full) {
      size_t avail = pieces[pi] - poff;
      size_t left = 0;
      int rv = vg_collect(e, in.data() + pos + took, avail, &left);
      size_t used = avail - left;
      took += used;
      poff += used;
      if (poff == pieces[pi]) pi++, poff = 0;
      if (left > 0) {
        full = true;
        if (!rv) V.fail("collect() left input unconsumed but did not report a full block");
      } else if (rv) {
        full = true;  // reported full exactly at the end of a buffer
      }
    }
    uint32_t crc = 0;
    uint32_t nb = vg_enc_finish_rle(e, &crc);   // the full encode() (sorting, coding) is exercised by `roundtrip`
    const uint8_t *blk = vg_enc_block(e);
    if (took != best)
      V.fail("block " + std::to_string(nblocks) + " consumed " + std::to_string(took) + " input bytes, greedy model " +
             std::to_string(best) + " (cap " + std::to_string(cap) + ")");
    else if (nb != want.size() || mcmp(blk, want.data(), nb) != 0)
      V.fail("block " + std::to_string(nblocks) + ": run-length-encoded bytes differ from the model (" + std::to_string(nb) +
             " vs " + std::to_string(want.size()) + ")");
    else {
      bzkit::Crc c;
      for (size_t i = 0; i < best; i++) c.add(in[pos + i]);
      if (c.fin() != (crc ^ 0xFFFFFFFFu)) V.fail("block CRC differs from the CRC of the consumed input");  // encode() returns the raw register
    }
    if (want.size() == cap) capacity = true;
    vg_enc_free(e);
    pos += took ? took : 1;
    nblocks++;
  }
  for (size_t i = 0; i + 3 < len; i++)
    if (in[i] == in[i + 1] && in[i] == in[i + 2] && in[i] == in[i + 3]) ran4 = true;
  if (ran4) G.label("run>=4");
  if (capacity) G.label("block-at-capacity");
  if (pieces.size() > 1) G.label("several-buffers");
  if (nblocks > 1) G.label("several-blocks");
  if ((ran4 || capacity) && len) {
    G.nontrivial.insert(fnv(data, n));
    sample("len=" + std::to_string(len) + " cap=" + std::to_string(cap) + " blocks=" + std::to_string(nblocks) +
           " buffers=" + std::to_string(pieces.size()));
  }
  return V;
}

// ------------------------------------------------------------------------------------------------ C20: optimal codes
// package-merge: minimal sum f_i * l_i over complete prefix codes on n symbols with l_i <= L (n <= 2^L)
static uint64_t pm_optimum(const std::vector<uint32_t> &f, int L) {
  const size_t n = f.size();
  struct Item {
    uint64_t w;
    std::vector<uint16_t> cnt;  // per symbol multiplicity (sparse would be faster; n <= 258)
  };
  std::vector<size_t> ord(n);
  for (size_t i = 0; i < n; i++) ord[i] = i;
  std::stable_sort(ord.begin(), ord.end(), [&](size_t a, size_t b) { return f[a] < f[b]; });
  std::vector<Item> leaves(n);
  for (size_t k = 0; k < n; k++) {
    leaves[k].w = f[ord[k]];
    leaves[k].cnt.assign(n, 0);
    leaves[k].cnt[ord[k]] = 1;
  }
  std::vector<Item> prev = leaves;
  for (int lvl = 2; lvl <= L; lvl++) {
    std::vector<Item> pk;
    for (size_t k = 0; k + 1 < prev.size(); k += 2) {
      Item it;
      it.w = prev[k].w + prev[k + 1].w;
      it.cnt = prev[k].cnt;
      for (size_t i = 0; i < n; i++) it.cnt[i] += prev[k + 1].cnt[i];
      pk.push_back(std::move(it));
    }
    std::vector<Item> m;
    size_t a = 0, b = 0;
    while (a < leaves.size() || b < pk.size()) {
      if (b >= pk.size() || (a < leaves.size() && leaves[a].w <= pk[b].w))
        m.push_back(leaves[a++]);
      else
        m.push_back(pk[b++]);
    }
    prev.swap(m);
  }
  uint64_t total = 0;
  for (size_t k = 0; k < 2 * n - 2 && k < prev.size(); k++) total += prev[k].w;
  return total;
}
// brute force for tiny alphabets: all length vectors with Kraft sum exactly 1
static uint64_t brute_optimum(const std::vector<uint32_t> &f, int L) {
  const size_t n = f.size();
  uint64_t best = UINT64_MAX;
  std::vector<int> l(n, 1);
  for (;;) {
    uint64_t kraft = 0, cost = 0;
    for (size_t i = 0; i < n; i++) kraft += 1ull << (L - l[i]), cost += (uint64_t)f[i] * l[i];
    if (kraft == (1ull << L)) best = std::min(best, cost);
    size_t i = 0;
    while (i < n && l[i] == L) l[i++] = 1;
    if (i == n) break;
    l[i]++;
  }
  return best;
}
static bool pm_selftest() {
  uint32_t x = 12345;
  for (int it = 0; it < 300; it++) {
    x = x * 1664525u + 1013904223u;
    size_t n = 2 + (x >> 8) % 5;
    int L = 1;
    while ((1u << L) < n) L++;
    L += (x >> 20) % 3;
    std::vector<uint32_t> f(n);
    for (auto &v : f) {
      x = x * 1664525u + 1013904223u;
      v = (x >> 12) % 5 == 0 ? 0 : (x >> 16) % 1000;
    }
    if (pm_optimum(f, L) != brute_optimum(f, L)) return false;
  }
  return true;
}

static Verdict prop_prefix(const uint8_t *data, size_t n) {
  Verdict V;
  Tape t(data, n);
  static const unsigned alphas[] = {3, 3, 4, 5, 8, 17, 40, 100, 200, 258, 258};
  unsigned as = alphas[t.pick(11)];
  unsigned shape = t.pick(6);
  static const unsigned sizes[] = {2, 10, 60, 149, 150, 151, 400, 1300, 2500, 6000, 20000, 60000};
  unsigned nm = sizes[t.pick(12)];
  if (shape == 3) nm = std::max(nm, 20000u);
  nm = std::max(nm, 2u);
  // symbol weights
  std::vector<double> w(as - 1);
  uint32_t x = 99 + t.pick(65536);
  double fa = 1, fb = 1;
  for (unsigned i = 0; i + 1 < as; i++) {
    x = x * 1664525u + 1013904223u;
    switch (shape) {
      default:
      case 0: w[i] = 1; break;                                      // uniform
      case 1: w[i] = 1.0 / (1u << std::min(i, 30u)); break;         // geometric
      case 2: w[i] = (x >> 16) % 100 + 1; break;                    // random
      case 3: {                                                     // Fibonacci: plain Huffman would exceed 20 bits
        w[i] = fa;
        double c = fa + fb;
        fa = fb;
        fb = c;
        if (i > 40) w[i] = 1e9;
        break;
      }
      case 4: w[i] = (x >> 16) % 7 == 0 ? 50 : 0; break;            // many zeros
      case 5: w[i] = i < 3 ? 1000 : 1; break;                       // skewed
    }
  }
  double tot = 0;
  for (double v : w) tot += v;
  if (tot <= 0) w[0] = 1, tot = 1;
  std::vector<uint16_t> mtfv(nm);
  // deterministic sampling; symbols 0..as-2, EOB = as-1 last.  Optionally in segments with different statistics
  unsigned segs = 1 + t.pick(4);
  for (unsigned i = 0; i + 1 < nm; i++) {
    x = x * 1664525u + 1013904223u;
    double r = ((x >> 8) & 0xFFFFFF) / double(0x1000000) * tot;
    unsigned s = 0;
    unsigned rot = (i * segs / nm) * (as / 3);
    while (s + 2 < as && r >= w[s]) r -= w[s], s++;
    mtfv[i] = (uint16_t)((s + rot) % (as - 1));
  }
  mtfv[nm - 1] = (uint16_t)(as - 1);
  static vg_codes C;
  if (vg_prefix(mtfv.data(), nm, 8, &C) != 0) return V;
  if (C.num_trees < 2 || C.num_trees > 6) V.fail("number of tables " + std::to_string(C.num_trees));
  unsigned ngroups = (nm + 49) / 50;
  if (C.num_selectors != ngroups) V.fail("selector count differs from the number of groups");
  std::vector<std::vector<uint32_t>> freq(6, std::vector<uint32_t>(as, 0));
  std::vector<bool> used(6, false);
  for (unsigned g = 0; g < ngroups && g < sizeof(C.selector); g++) {
    unsigned tr = C.selector[g];
    if (tr >= C.num_trees) {
      V.fail("selector refers to a table that is not transmitted");
      break;
    }
    used[tr] = true;
    for (unsigned i = g * 50; i < std::min(nm, g * 50 + 50); i++) freq[tr][mtfv[i]]++;
  }
  bool deep = false, three = false;
  for (unsigned tr = 0; tr < C.num_trees && V.ok; tr++) {
    uint64_t kraft = 0, cost = 0;
    int mx = 0;
    std::set<int> distinct;
    for (unsigned v = 0; v < as; v++) {
      int l = C.length[tr][v];
      if (l < 1 || l > 20) {
        V.fail("code length " + std::to_string(l) + " outside 1..20 (table " + std::to_string(tr) + ")");
        break;
      }
      kraft += 1ull << (20 - l);
      cost += (uint64_t)freq[tr][v] * l;
      mx = std::max(mx, l);
      distinct.insert(l);
    }
    if (!V.ok) break;
    if (kraft != (1ull << 20)) {
      V.fail(std::string("table ") + std::to_string(tr) + (used[tr] ? " (used)" : " (unused)") + " is not complete");
      break;
    }
    if (!used[tr]) continue;
    uint64_t opt = pm_optimum(freq[tr], mx);
    if (cost != opt)
      V.fail("table " + std::to_string(tr) + ": coded length " + std::to_string(cost) + " bits, optimum under max length " +
             std::to_string(mx) + " is " + std::to_string(opt));
    if (mx == 20) deep = true;
    if (distinct.size() >= 3) three = true;
  }
  if (deep) G.label("max-length-20(length-limited)");
  G.label("alphabet=" + std::to_string(as));
  G.label("tables=" + std::to_string(C.num_trees));
  if (three) {
    G.nontrivial.insert(fnv(data, n));
    sample("alpha=" + std::to_string(as) + " symbols=" + std::to_string(nm) + " shape=" + std::to_string(shape) +
           " tables=" + std::to_string(C.num_trees));
  }
  return V;
}

// ------------------------------------------------------------------------------------------------ decoder properties
static void sched_from_tape(Tape &t, std::vector<uint32_t> &in_steps, std::vector<uint32_t> &out_sizes) {
  unsigned how = t.pick(7);
  in_steps.clear();
  out_sizes.clear();
  if (how == 0) {
    in_steps = {1};
    out_sizes = {1};
  } else if (how == 1) {
    in_steps = {1};
    out_sizes = {1 + t.pick(40)};
  } else if (how == 2) {
    unsigned k = 1 + t.pick(5);
    for (unsigned i = 0; i < k; i++) in_steps.push_back(1 + t.pick(6));
    k = 1 + t.pick(5);
    for (unsigned i = 0; i < k; i++) out_sizes.push_back(1 + t.pick(300));
  } else if (how == 3) {
    in_steps = {1 + t.pick(64)};
    out_sizes = {900000};
  } else if (how == 4) {
    in_steps = {65536};
    out_sizes = {1 + t.pick(7)};
  } else if (how == 5) {
    // around the decoder's fast-path requirement (a group of fifty 20-bit codes needs 32 words of look-ahead)
    in_steps = {29 + t.pick(7)};
    out_sizes = {900000};
  } else {
    static const uint32_t cand[] = {1, 2, 31, 32, 33, 34, 63, 64, 65};
    unsigned k = 2 + t.pick(5);
    for (unsigned i = 0; i < k; i++) in_steps.push_back(cand[t.pick(9)]);
    out_sizes = {1 + t.pick(4000)};
  }
}

// `file` decoded (a) in one piece with production-sized buffers, (b) under the tape's schedule: both must agree with
// each other (C09) and with the strict reference (C05 / C06).
static Verdict check_decode(const std::string &file, Tape &t, const uint8_t *fp_data, size_t fp_n, const char *origin,
                            const std::string *known_plain, bool require_accept = true) {
  Verdict V;
  const size_t MAXOUT = 8u << 20;
  uint8_t *o1 = nullptr, *o2 = nullptr;
  size_t l1 = 0, l2 = 0;
  vg_dec_stats s1, s2;
  std::vector<uint32_t> in_steps, out_sizes;
  sched_from_tape(t, in_steps, out_sizes);
  int r1 = vg_decompress((const uint8_t *)file.data(), file.size(), nullptr, 0, nullptr, 0, MAXOUT, &o1, &l1, &s1);
  int r2 = vg_decompress((const uint8_t *)file.data(), file.size(), in_steps.data(), in_steps.size(), out_sizes.data(),
                         out_sizes.size(), MAXOUT, &o2, &l2, &s2);
  if (r1 == VG_TOO_BIG || r2 == VG_TOO_BIG) {
    free(o1);
    free(o2);
    G.label("skipped:output-too-big");
    return V;
  }
  bzkit::Options opt;
  bzkit::Result R = bzkit::inspect((const uint8_t *)file.data(), file.size(), opt);
  bool excluded = R.oversub_used;
  // C09: same status, same bytes
  if ((r1 == VG_OK) != (r2 == VG_OK))
    V.fail(std::string("status depends on buffer boundaries: one piece -> ") + vg_errname(r1) + ", scheduled -> " + vg_errname(r2));
  else if (r1 == VG_OK && (l1 != l2 || mcmp(o1, o2, l1) != 0))
    V.fail("decoded bytes depend on buffer boundaries");
  else if (r1 != VG_OK && r1 != r2 && !(r1 >= 4 && r2 >= 4))
    V.fail("different non-error statuses");
  // C05: acceptance implies validity and reference bytes
  if (V.ok && r1 == VG_OK && !excluded) {
    if (!R.valid)
      V.fail("accepted an input the strict reference rejects: " + R.reason + " (bit " + std::to_string(R.err_bit) + ")");
    else if (R.output.size() != l1 || mcmp(R.output.data(), o1, l1) != 0)
      V.fail("accepted, but the bytes differ from the reference decoding");
  }
  // C06: a conforming file must be accepted (documented exception: a used incomplete table)
  if (V.ok && require_accept && R.valid && !R.incomplete_used && !excluded && r1 != VG_OK && file.size() >= 4)
    V.fail(std::string("rejected a conforming file: ") + vg_errname(r1));
  if (V.ok && known_plain && R.valid && (R.output != *known_plain)) V.fail("harness: reference decoding differs from the generator's plaintext");
  G.label(std::string(origin) + (R.valid ? ":valid" : ":invalid"));
  G.label(std::string("lbzip2:") + vg_errname(r1));
  if (s2.retrieve_suspends) G.label("retrieve-suspended");
  if (s2.emit_suspends) G.label("emit-suspended");
  for (int i = 0; i < 8; i++)
    if (s2.emit_state_hist[i]) G.label("emit-suspend-state-" + std::to_string(i));
  for (int i = 0; i < 16; i++)
    if (s2.retr_state_hist[i]) G.label("retrieve-suspend-state-" + std::to_string(i));
  if (s1.blocks >= 1 && (s2.retrieve_suspends || s2.emit_suspends)) {
    G.nontrivial.insert(fnv(fp_data, fp_n));
    sample(std::string(origin) + " file=" + std::to_string(file.size()) + "B blocks=" + std::to_string(s1.blocks) + " status=" +
           vg_errname(r1) + " retrieve-suspends=" + std::to_string(s2.retrieve_suspends) +
           " emit-suspends=" + std::to_string(s2.emit_suspends));
  }
  free(o1);
  free(o2);
  return V;
}

// valid files from the choice-tape generator (C06 / C09)
static Verdict prop_decode_valid(const uint8_t *data, size_t n) {
  Tape t(data, n);
  size_t cut = n > 24 ? 24 : n / 2;  // first bytes: schedule, rest: generator tape
  bzkit::gen::GenOptions o;
  o.max_block = 1500;
  o.defect = -1;
  bzkit::gen::GenResult g = bzkit::gen::generate(data + cut, n - cut, o);
  Tape ts(data, cut);
  for (auto &kv : g.labels)
    if (kv.first.rfind("fam_", 0) != 0 && kv.first.rfind("level", 0) != 0) G.label("gen:" + kv.first);
  return check_decode(g.bytes, ts, data, n, "bzgen", &g.plain);
}
// symbol-level blocks: planted bit strings (block-header pattern + junk / nested block) inside coded data, groups of
// maximal width; decodable by the format's rules but not producible by an encoder, so only "accept => reference bytes"
// and independence of buffer boundaries are demanded (C05 / C09 / C10 / C08)
static Verdict prop_decode_sym(const uint8_t *data, size_t n) {
  size_t cut = n > 24 ? 24 : n / 2;
  bzkit::gen::GenOptions o;
  o.max_block = 2500;
  o.defect = -1;
  o.sym_blocks = 2;
  bzkit::gen::GenResult g = bzkit::gen::generate(data + cut, n - cut, o);
  Tape ts(data, cut);
  for (auto &kv : g.labels)
    if (kv.first.rfind("sym", 0) == 0 || kv.first.rfind("plant", 0) == 0) G.label("gen:" + kv.first);
  return check_decode(g.bytes, ts, data, n, "bzgen-sym", nullptr, !g.sym_used);
}
// one catalogue defect (C05 / C07)
static Verdict prop_decode_defect(const uint8_t *data, size_t n) {
  size_t cut = n > 24 ? 24 : n / 2;
  bzkit::gen::GenOptions o;
  o.max_block = 1500;
  o.defect = -2;
  bzkit::gen::GenResult g = bzkit::gen::generate(data + cut, n - cut, o);
  Tape ts(data, cut);
  G.label(std::string("defect:") + bzkit::gen::defect_name(g.defect));
  return check_decode(g.bytes, ts, data, n, "bzgen-defect", nullptr);
}
// raw bytes (fuzzer route): the tape is the file, preceded by a 4-byte schedule
static Verdict prop_decode_raw(const uint8_t *data, size_t n) {
  size_t cut = n > 6 ? 6 : 0;
  Tape ts(data, cut);
  unsigned mode = cut ? data[4] % 4 : 0;
  std::string file;
  const uint8_t *rest = data + cut;
  size_t rn = n - cut;
  if (mode == 0) {
    file.assign((const char *)rest, rn);                       // completely raw
  } else if (mode == 1) {
    file = "BZh";
    file.push_back((char)('1' + (cut ? data[5] % 9 : 0)));     // valid stream header, then raw
    file.append((const char *)rest, rn);
  } else if (mode == 2) {
    file = "BZh";
    file.push_back((char)('1' + (cut ? data[5] % 9 : 0)));
    static const char magic[6] = {0x31, 0x41, 0x59, 0x26, 0x53, 0x59};
    file.append(magic, 6);                                      // ... and a block header
    file.append((const char *)rest, rn);
  } else {
    // a valid generated file damaged by byte-level edits taken from the tape
    size_t gcut = rn > 12 ? 12 : rn / 2;
    bzkit::gen::GenOptions o;
    o.max_block = 600;
    bzkit::gen::GenResult g = bzkit::gen::generate(rest + gcut, rn - gcut, o);
    file = g.bytes;
    Tape tm(rest, gcut);
    unsigned nm = 1 + tm.pick(3);
    for (unsigned i = 0; i < nm && !file.empty(); i++) {
      unsigned how = tm.pick(4);
      size_t at = tm.pick((uint32_t)file.size());
      if (how == 0)
        file[at] = (char)(file[at] ^ (1 << tm.pick(8)));
      else if (how == 1)
        file[at] = (char)tm.byte();
      else if (how == 2)
        file.resize(at);
      else
        file.insert(at, 1, (char)tm.byte());
    }
  }
  G.label("raw-mode-" + std::to_string(mode));
  return check_decode(file, ts, data, n, "raw", nullptr);
}

// ------------------------------------------------------------------------------------------------ C01: round trip
static Verdict prop_roundtrip(const uint8_t *data, size_t n) {
  Verdict V;
  Tape t(data, n);
  unsigned capsel = t.pick(4);
  unsigned cap = capsel == 0 ? 1 + t.pick(30) : capsel == 1 ? 1 + t.pick(400) : 1 + t.pick(4000);
  unsigned len = t.pick(3) == 0 ? t.pick(40) : t.pick(std::min(8 * cap, 6000u) + 1);
  unsigned fam = t.pick(6);
  std::vector<uint8_t> in(len);
  uint32_t x = 5 + t.pick(65536);
  for (unsigned i = 0; i < len; i++) {
    x = x * 1664525u + 1013904223u;
    switch (fam) {
      default:
      case 0: in[i] = (uint8_t)(x >> 24); break;
      case 1: in[i] = (uint8_t)('a' + (x >> 24) % 3); break;
      case 2: in[i] = (uint8_t)('a' + ((i / 5) % 2)); break;                   // runs of 5
      case 3: in[i] = (uint8_t)((x >> 24) % 16 == 0 ? (x >> 16) & 0xFF : (i ? in[i - 1] : 0)); break;  // long runs
      case 4: in[i] = (uint8_t)("abracadabra"[i % 11]); break;                  // periodic
      case 5: in[i] = (uint8_t)t.byte(); break;
    }
  }
  std::vector<unsigned> pieces;
  {
    unsigned left = len, how = t.pick(3);
    while (left) {
      unsigned p = how == 0 ? left : how == 1 ? 1 + t.pick(std::min(left, 9u)) : 1 + t.pick(std::min(left, 2000u));
      p = std::min(p, left);
      pieces.push_back(p);
      left -= p;
    }
  }
  std::string file = "BZh1";
  uint32_t comb = 0;
  size_t pos = 0, pi = 0, poff = 0;
  unsigned nblocks = 0;
  while (pos < len) {
    void *e = vg_enc_new(cap);
    bool full = false;
    size_t took = 0;
    while (pos + took < len && !full) {
      size_t avail = pieces[pi] - poff, left = 0;
      int rv = vg_collect(e, in.data() + pos + took, avail, &left);
      size_t used = avail - left;
      took += used;
      poff += used;
      if (poff == pieces[pi]) pi++, poff = 0;
      if (left > 0 || rv) full = true;
    }
    if (took == 0) {
      V.fail("collect() made no progress");
      vg_enc_free(e);
      break;
    }
    uint32_t crc = 0;
    size_t sz = vg_encode(e, &crc);
    std::vector<uint32_t> buf((sz + 3) / 4 + 2);
    vg_transmit(e, buf.data());
    file.append((const char *)buf.data(), sz);
    comb = ((comb << 1) | (comb >> 31)) ^ (crc ^ 0xFFFFFFFFu);  // encode() returns the raw CRC register
    vg_enc_free(e);
    pos += took;
    nblocks++;
  }
  if (!V.ok) return V;
  static const uint8_t eos[6] = {0x17, 0x72, 0x45, 0x38, 0x50, 0x90};
  file.append((const char *)eos, 6);
  for (int i = 3; i >= 0; i--) file.push_back((char)(comb >> (8 * i)));
  // independent reader: strictly well-formed (C02) and decodes to the input (C01)
  bzkit::Options opt;
  bzkit::Result R = bzkit::inspect((const uint8_t *)file.data(), file.size(), opt);
  if (!R.valid)
    V.fail("encoder output rejected by the strict reference: " + R.reason);
  else if (R.output.size() != len || mcmp(R.output.data(), in.data(), len) != 0)
    V.fail("encoder output decodes (reference) to something else than the input");
  else {
    for (auto &S : R.streams)
      for (auto &B : S.blocks) {
        if (B.nblock > cap) V.fail("block larger than the capacity given to the encoder");
        if (B.rand) V.fail("randomised block");
        if (B.n_sel_decl > 18002) V.fail("more than 18002 selectors");
        for (auto &T : B.tables) {
          if (T.kraft != (1ull << 20)) V.fail("a transmitted table is not complete");
          if (T.min_seen < 1 || T.max_seen > 20) V.fail("code length path leaves 1..20");
        }
      }
  }
  // lbzip2's own decoder, under a schedule
  if (V.ok) {
    std::vector<uint32_t> in_steps, out_sizes;
    sched_from_tape(t, in_steps, out_sizes);
    uint8_t *o = nullptr;
    size_t l = 0;
    vg_dec_stats st;
    int r = vg_decompress((const uint8_t *)file.data(), file.size(), in_steps.data(), in_steps.size(), out_sizes.data(),
                          out_sizes.size(), 64u << 20, &o, &l, &st);
    if (r != VG_OK)
      V.fail(std::string("lbzip2's decoder rejects lbzip2's encoder output: ") + vg_errname(r));
    else if (l != len || mcmp(o, in.data(), len) != 0)
      V.fail("round trip through lbzip2's own decoder differs");
    free(o);
  }
  if (nblocks > 1) G.label("several-blocks");
  G.label("family-" + std::to_string(fam));
  if (len == 0) G.label("empty-input");
  if (len && (nblocks > 1 || fam == 2 || fam == 3)) {
    G.nontrivial.insert(fnv(data, n));
    sample("len=" + std::to_string(len) + " cap=" + std::to_string(cap) + " blocks=" + std::to_string(nblocks) + " family=" +
           std::to_string(fam));
  }
  return V;
}

// ------------------------------------------------------------------------------------------------ BWT (C01 / C08)
static Verdict prop_bwt(const uint8_t *data, size_t n) {
  Verdict V;
  Tape t(data, n);
  unsigned len = 1 + (t.pick(4) == 0 ? t.pick(2000) : t.pick(200));
  unsigned fam = t.pick(5);
  std::vector<uint8_t> s(len);
  uint32_t x = 1 + t.pick(65536);
  unsigned per = 1 + t.pick(9);
  for (unsigned i = 0; i < len; i++) {
    x = x * 1664525u + 1013904223u;
    s[i] = fam == 0 ? (uint8_t)(x >> 24) : fam == 1 ? (uint8_t)('a' + (x >> 24) % 2) : fam == 2 ? (uint8_t)('a' + i % per)
           : fam == 3 ? (uint8_t)t.byte() : (uint8_t)('a' + (i % (per + 3) == 0));
  }
  std::vector<uint8_t> last(len);
  int32_t idx = vg_bwt(s.data(), (int32_t)len, last.data());
  std::vector<uint32_t> sa = bzkit::gen::sort_rotations(s);
  for (unsigned i = 0; i < len && V.ok; i++)
    if (last[i] != s[(sa[i] + len - 1) % len]) V.fail("last column differs from the rotation sort at row " + std::to_string(i));
  if (V.ok) {
    if (idx < 0 || (unsigned)idx >= len)
      V.fail("primary index outside the block");
    else {
      // the row at idx must be a rotation equal to the text (ties allowed for periodic texts)
      uint32_t st = sa[idx];
      for (unsigned i = 0; i < len && V.ok; i++)
        if (s[(st + i) % len] != s[i]) V.fail("row at the primary index is not the text");
    }
  }
  G.label("family-" + std::to_string(fam));
  if (len >= 2) G.nontrivial.insert(fnv(data, n));
  if (len >= 2) sample("len=" + std::to_string(len) + " family=" + std::to_string(fam));
  return V;
}

// ------------------------------------------------------------------------------------------------ registry + drivers
typedef Verdict (*PropFn)(const uint8_t *, size_t);
struct PropEntry {
  const char *name;
  PropFn fn;
  int max_size;
};
static const PropEntry PROPS[] = {
    {"scan", prop_scan, 120},          {"collect", prop_collect, 200},
    {"prefix", prop_prefix, 40},       {"decode_valid", prop_decode_valid, 1200},
    {"decode_defect", prop_decode_defect, 1200}, {"decode_raw", prop_decode_raw, 600},
    {"decode_sym", prop_decode_sym, 1500},
    {"roundtrip", prop_roundtrip, 400}, {"bwt", prop_bwt, 300},
};
static const PropEntry *find_prop(const char *n) {
  for (auto &p : PROPS)
    if (!strcmp(p.name, n)) return &p;
  return nullptr;
}

#ifdef VT_LIBFUZZER
#define VT_STR2(x) #x
#define VT_STR(x) VT_STR2(x)
extern "C" int LLVMFuzzerTestOneInput(const uint8_t *data, size_t size) {
  static const PropEntry *P = find_prop(VT_STR(VT_LIBFUZZER));
  static bool reg = (atexit(dump_stats), true);
  (void)reg;
  G.evaluations++;
  Verdict v = P->fn(data, size);
  if (!v.ok) {
    fprintf(stderr, "PROPERTY FAILED [%s]: %s\n", P->name, v.why.c_str());
    dump_stats();
    __builtin_trap();
  }
  return 0;
}
#else
int main(int argc, char **argv) {
  if (argc >= 2 && !strcmp(argv[1], "list")) {
    for (auto &p : PROPS) printf("%s\n", p.name);
    return 0;
  }
  if (argc >= 2 && !strcmp(argv[1], "dfa")) return check_dfa();
  if (argc >= 2 && !strcmp(argv[1], "selftest")) {
    bool ok = pm_selftest();
    printf("package-merge oracle vs brute force: %s\n", ok ? "agree" : "DISAGREE");
    return ok ? 0 : 2;
  }
  if (argc >= 4 && !strcmp(argv[1], "replay")) {
    const PropEntry *P = find_prop(argv[2]);
    if (!P) return 2;
    std::ifstream f(argv[3], std::ios::binary);
    std::vector<uint8_t> d((std::istreambuf_iterator<char>(f)), std::istreambuf_iterator<char>());
    Verdict v = P->fn(d.data(), d.size());
    if (!v.ok) {
      printf("FAILED: %s\n", v.why.c_str());
      return 1;
    }
    printf("ok\n");
    return 0;
  }
  if (argc >= 3 && !strcmp(argv[1], "rc")) {
    const PropEntry *P = find_prop(argv[2]);
    if (!P) return 2;
    if (!strcmp(P->name, "prefix") && !pm_selftest()) {
      printf("package-merge oracle disagrees with brute force\n");
      return 2;
    }
    const char *failpath = getenv("VT_FAILFILE");
    std::string why;
    __sanitizer_set_death_callback(save_current_case);
    signal(SIGABRT, on_abort);
    bool ok = rc::check(P->name, [&]() {
      // sizes are scaled per property; rapidcheck's size parameter (0..max_size) picks the length class
      const auto tape = *rc::gen::scale(P->max_size / 100.0, rc::gen::container<std::vector<uint8_t>>(rc::gen::resize(100, rc::gen::arbitrary<uint8_t>())));
      G.evaluations++;
      g_cur = tape.data();
      g_cur_n = tape.size();
      Verdict v = P->fn(tape.data(), tape.size());
      g_cur = nullptr;
      if (!v.ok) {
        why = v.why;
        if (failpath) {
          std::ofstream o(failpath, std::ios::binary);
          o.write((const char *)tape.data(), tape.size());
        }
      }
      RC_ASSERT(v.ok);
    });
    dump_stats();
    if (!ok) printf("FALSIFIED [%s]: %s\n", P->name, why.c_str());
    return ok ? 0 : 1;
  }
  fprintf(stderr, "usage: vtargets list | dfa | selftest | rc PROP | replay PROP FILE\n");
  return 2;
}
#endif
