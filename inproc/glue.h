/* White-box glue around lbzip2's codec functions (compiled against /repo/src at check time).
   Plain C API, used by the rapidcheck / libFuzzer targets and (through ctypes) by Python checks. */
#ifndef VG_GLUE_H
#define VG_GLUE_H
#include <stddef.h>
#include <stdint.h>

#ifdef __cplusplus
extern "C" {
#endif

/* provided by glue_misc.c (main.c is not linked) */
void *xmalloc(size_t n);
void vg_free(void *p);

/* ---- return codes of lbzip2 (src/common.h) that the glue passes through */
#define VG_OK 0
#define VG_MORE 1
#define VG_FINISH 2
#define VG_TOO_BIG 100   /* glue limit on the decoded size reached (not an lbzip2 verdict) */
#define VG_NOT_BZIP2 101 /* first four bytes are not BZh1..BZh9 (process.c:work) */

/* ---- scanner (parse.c) */
int vg_scan(const uint32_t *words_be, size_t nwords, unsigned live, uint64_t buff, unsigned skip,
            unsigned *o_live, uint64_t *o_buff, size_t *o_index);
unsigned vg_dfa_mini(unsigned state, unsigned bit);
unsigned vg_dfa_big(unsigned state, unsigned byte);
unsigned vg_dfa_accept(void);

/* ---- encoder (encode.c) */
void *vg_enc_new(unsigned long max_block_size);
void vg_enc_free(void *e);
/* returns collect()'s return value; *left = bytes of buf not consumed */
int vg_collect(void *e, const uint8_t *buf, size_t len, size_t *left);
uint32_t vg_enc_nblock(void *e);
const uint8_t *vg_enc_block(void *e);
int vg_enc_rle_state(void *e);
uint32_t vg_enc_finish_rle(void *e, uint32_t *crc);   /* pending run flushed as encode() would; returns nblock */
size_t vg_encode(void *e, uint32_t *crc);   /* finishes the block; returns its size in bytes */
void vg_transmit(void *e, void *buf);        /* buf: (size + 3) / 4 * 4 + 4 bytes */

/* prefix codes for a given MTF/RLE2 symbol array (last symbol = EOB = alphabet size - 1) */
struct vg_codes {
  unsigned num_trees, num_selectors, alpha;
  uint8_t length[6][259];  /* by transmitted tree index */
  uint8_t selector[18002];  /* transmitted tree index per group */
  unsigned cost;
};
int vg_prefix(const uint16_t *mtfv, uint32_t nm, unsigned cluster_factor, struct vg_codes *out);

/* ---- BWT (divbwt.c): returns primary index, fills last column */
int32_t vg_bwt(const uint8_t *text, int32_t n, uint8_t *last_column);

/* ---- sequential decompressor: parse / retrieve / decode / emit driven the way expand.c drives them, with the
   input delivered in steps of in_steps[i] 32-bit words (cycled) and emit() called with buffers of out_sizes[i]
   bytes (cycled).  Returns an lbzip2 status: VG_OK (whole file decoded) or an ERR_* code; *out is malloc'ed. */
struct vg_dec_stats {
  uint64_t blocks, retrieve_suspends, emit_suspends, parse_suspends;
  uint64_t emit_state_hist[8];     /* ds->rle_state at each emit() suspension */
  uint64_t retr_state_hist[16];    /* retriever state at each retrieve() suspension (clamped) */
};
int vg_decompress(const uint8_t *in, size_t n, const uint32_t *in_steps, size_t n_in_steps, const uint32_t *out_sizes,
                  size_t n_out_sizes, size_t max_out, uint8_t **out, size_t *outlen, struct vg_dec_stats *st);
const char *vg_errname(int code);

#ifdef __cplusplus
}
#endif
#endif
