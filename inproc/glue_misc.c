/* scanner access + the one symbol the codec objects need from main.c */
#include "parse.c"
#include "glue.h"

#include <stdio.h>
#include <stdlib.h>

/* Large blocks (the decoder's 3.6 MB tt array, the encoder state) come from a small pool of static slots instead of
   the sanitizer's allocator: that one maps and unmaps fresh pages for every large request, and page faults are what
   bounds the case rate on this machine.  The slots are manually poisoned around and after use, so overruns and
   use after free are still reported (as use-after-poison). */
#if defined(__has_feature)
#if __has_feature(address_sanitizer)
#define VG_ASAN 1
#endif
#endif
#ifdef __SANITIZE_ADDRESS__
#define VG_ASAN 1
#endif
#ifdef VG_ASAN
#include <sanitizer/asan_interface.h>
#else
#define ASAN_POISON_MEMORY_REGION(a, n) ((void)(a), (void)(n))
#define ASAN_UNPOISON_MEMORY_REGION(a, n) ((void)(a), (void)(n))
#endif

#define VG_SLOTS 6
#define VG_SLOT_BYTES (4800000u)
#define VG_RED 4096u
static _Alignas(64) unsigned char vg_pool[VG_SLOTS][VG_RED + VG_SLOT_BYTES + VG_RED];
static int vg_used[VG_SLOTS];
static int vg_pool_ready;

void *
xmalloc(size_t n)
{
  void *p;

  if (n >= 65536 && n <= VG_SLOT_BYTES) {
    int i;

    if (!vg_pool_ready) {
      ASAN_POISON_MEMORY_REGION(vg_pool, sizeof(vg_pool));
      vg_pool_ready = 1;
    }
    for (i = 0; i < VG_SLOTS; i++)
      if (!vg_used[i]) {
        vg_used[i] = 1;
        p = vg_pool[i] + VG_RED;
        ASAN_UNPOISON_MEMORY_REGION(p, n);
        return p;
      }
  }
  p = malloc(n ? n : 1);
  if (!p) {
    fprintf(stderr, "glue: out of memory\n");
    abort();
  }
  return p;
}

void
vg_free(void *p)
{
  unsigned char *c = p;

  if (c >= (unsigned char *)vg_pool && c < (unsigned char *)vg_pool + sizeof(vg_pool)) {
    size_t i = (size_t)(c - (unsigned char *)vg_pool) / sizeof(vg_pool[0]);

    if (c != vg_pool[i] + VG_RED || !vg_used[i]) {
      fprintf(stderr, "glue: bad or double free of a pooled block\n");
      abort();
    }
    ASAN_POISON_MEMORY_REGION(vg_pool[i], sizeof(vg_pool[i]));
    vg_used[i] = 0;
    return;
  }
  free(p);
}

int
vg_scan(const uint32_t *words_be, size_t nwords, unsigned live, uint64_t buff, unsigned skip, unsigned *o_live,
        uint64_t *o_buff, size_t *o_index)
{
  struct bitstream bs;
  int rv;

  bs.live = live;
  bs.buff = buff;
  bs.block = NULL;
  bs.data = words_be;
  bs.limit = words_be + nwords;
  bs.eof = 0;
  rv = scan(&bs, skip);
  *o_live = bs.live;
  *o_buff = bs.buff;
  *o_index = (size_t)(bs.data - words_be);
  return rv;
}

unsigned
vg_dfa_mini(unsigned state, unsigned bit)
{
  return mini_dfa[state][bit];
}

unsigned
vg_dfa_big(unsigned state, unsigned byte)
{
  return big_dfa[state][byte];
}

unsigned
vg_dfa_accept(void)
{
  return ACCEPT;
}
