/* scanner access + the one symbol the codec objects need from main.c */
#include "parse.c"
#include "glue.h"

#include <stdio.h>
#include <stdlib.h>

void *
xmalloc(size_t n)
{
  void *p = malloc(n ? n : 1);

  if (!p) {
    fprintf(stderr, "glue: out of memory\n");
    abort();
  }
  return p;
}

int
vg_scan(const uint32_t *words_be, size_t nwords, unsigned live, uint64_t buff, unsigned skip, unsigned *o_live,
        uint64_t *o_buff, size_t *o_index)
{
  struct bitstream bs;
  int rv;

  bs.live = live;
  bs.buff = buff;
  bs.block = NULL;
  bs.data = words_be;
  bs.limit = words_be + nwords;
  bs.eof = 0;
  rv = scan(&bs, skip);
  *o_live = bs.live;
  *o_buff = bs.buff;
  *o_index = (size_t)(bs.data - words_be);
  return rv;
}

unsigned
vg_dfa_mini(unsigned state, unsigned bit)
{
  return mini_dfa[state][bit];
}

unsigned
vg_dfa_big(unsigned state, unsigned byte)
{
  return big_dfa[state][byte];
}

unsigned
vg_dfa_accept(void)
{
  return ACCEPT;
}
