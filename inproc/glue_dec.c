/* white-box glue, decoder side: includes lbzip2's decode.c (private retriever state visible); parse.c, crctab.c are
   linked as ordinary objects.  vg_decompress() drives parse / retrieve / decode / emit sequentially the way
   expand.c does, re-stating the three checks that live in expand.c (declared block size, block CRC, end of file
   inside the zero padding of the last input word). */
#include <stdlib.h>
#include <string.h>
#include "glue.h"
/* decode.c releases what it got from xmalloc() with free(): route those to the glue's pool-aware release */
#define free(p) vg_free(p)
#include "decode.c"
#undef free

#include <arpa/inet.h>
#include <stdlib.h>
#include <string.h>

const char *
vg_errname(int code)
{
  static const char *t[] = { "OK", "MORE", "FINISH", "?", "ERR_MAGIC", "ERR_HEADER", "ERR_BITMAP", "ERR_TREES",
    "ERR_GROUPS", "ERR_SELECTOR", "ERR_DELTA", "ERR_PREFIX", "ERR_INCOMPLT", "ERR_EMPTY", "ERR_UNTERM", "ERR_RUNLEN",
    "ERR_BLKCRC", "ERR_STRMCRC", "ERR_OVERFLOW", "ERR_BWTIDX", "ERR_EOF" };

  if (code == VG_TOO_BIG)
    return "VG_TOO_BIG";
  if (code == VG_NOT_BZIP2)
    return "VG_NOT_BZIP2";
  if (code == OK)
    return "OK";
  if (code >= ERR_MAGIC && code <= ERR_EOF)
    return t[4 + code - ERR_MAGIC];
  return "?";
}

struct outbuf {
  uint8_t *p;
  size_t len, cap, max;
};

static int
out_append(struct outbuf *o, const uint8_t *d, size_t n)
{
  if (n == 0)
    return 0;
  if (o->len + n > o->max)
    return -1;
  if (o->len + n > o->cap) {
    size_t nc = o->cap ? o->cap * 2 : 4096;
    while (nc < o->len + n)
      nc *= 2;
    o->p = realloc(o->p, nc);
    if (!o->p)
      abort();
    o->cap = nc;
  }
  memcpy(o->p + o->len, d, n);
  o->len += n;
  return 0;
}

int
vg_decompress(const uint8_t *in, size_t n, const uint32_t *in_steps, size_t n_in_steps, const uint32_t *out_sizes,
              size_t n_out_sizes, size_t max_out, uint8_t **out, size_t *outlen, struct vg_dec_stats *st)
{
  struct parser_state par;
  struct header hd;
  struct bitstream bs;
  struct outbuf ob = { 0, 0, 0, max_out };
  uint32_t *words;
  size_t nwords, missing, delivered = 0, si = 0, oi = 0;
  unsigned garbage = 0;
  int rv, result;
  uint8_t *ebuf = NULL;
  size_t ebuf_cap = 0;
  uint32_t *curbuf = NULL;
  size_t curbase = 0;

  memset(st, 0, sizeof(*st));
  *out = NULL;
  *outlen = 0;
  /* process.c:work(): the first four bytes select the level or reject the file */
  if (n < 4 || in[0] != 'B' || in[1] != 'Z' || in[2] != 'h' || in[3] < '1' || in[3] > '9')
    return VG_NOT_BZIP2;
  in += 4;
  n -= 4;
  /* expand.c:on_input_avail(): the input is padded with zero bytes to a whole number of 32-bit words */
  nwords = (n + 3) / 4;
  missing = nwords * 4 - n;
  words = calloc(nwords + 1, 4);
  memcpy(words, in, n);

  parser_init(&par, in[-1] - '0', 0);
  bs.live = 0;
  bs.buff = 0;
  bs.block = NULL;
  bs.data = NULL;
  bs.limit = NULL;
  bs.eof = (nwords == 0);

  /* Every delivery is a separate heap buffer of exactly the delivered size, like the input blocks of the real
     program: reading one word past bs.limit is then a heap-buffer-overflow that ASan reports, not a harmless look
     at data that merely has not been handed over yet.  A new buffer is only attached when the previous one is used
     up (that is when parse() / retrieve() return MORE). */
#define DELIVER()                                                       \
  do {                                                                  \
    size_t step = n_in_steps ? in_steps[si++ % n_in_steps] : nwords;    \
    if (step == 0)                                                      \
      step = 1;                                                         \
    if (step > nwords - delivered)                                      \
      step = nwords - delivered;                                        \
    if (bs.data != bs.limit)                                            \
      abort();                                                          \
    free(curbuf);                                                       \
    curbuf = malloc(step * 4 ? step * 4 : 1);                           \
    memcpy(curbuf, words + delivered, step * 4);                        \
    curbase = delivered;                                                \
    delivered += step;                                                  \
    bs.data = curbuf;                                                   \
    bs.limit = curbuf + step;                                           \
    if (delivered == nwords)                                            \
      bs.eof = 1;                                                       \
  } while (0)

  for (;;) {
    rv = parse(&par, &hd, &bs, &garbage);
    if (rv == MORE) {
      st->parse_suspends++;
      if (bs.eof)
        abort();                /* parse() never asks for more at EOF */
      DELIVER();
      continue;
    }
    if (rv == FINISH) {
      /* expand.c:425-436: EOF reached inside the zero padding? */
      size_t off = curbase + (size_t)(bs.data - curbuf);
      unsigned live = bs.live + garbage;

      if (live >= 32) {
        live -= 32;
        off--;
      }
      if (off == nwords && live < 8 * missing)
        result = ERR_EOF;
      else
        result = OK;
      break;
    }
    if (rv != OK) {
      result = rv;
      break;
    }
    /* a block */
    {
      struct decoder_state ds;

      st->blocks++;
      decoder_init(&ds);
      for (;;) {
        rv = retrieve(&ds, &bs);
        if (rv != MORE)
          break;
        st->retrieve_suspends++;
        {
          unsigned s = ds.internal_state->state;
          st->retr_state_hist[s < 15 ? s : 15]++;
        }
        if (bs.eof) {
          rv = ERR_EOF;
          break;
        }
        DELIVER();
      }
      if (rv == OK) {
        decode(&ds);
        /* expand.c:do_reorder(): declared size is checked on every buffer, before it is written */
        if (ds.block_size > (unsigned)hd.bs100k * 100000u)
          rv = ERR_OVERFLOW;
      }
      if (rv == OK) {
        for (;;) {
          size_t want = n_out_sizes ? out_sizes[oi++ % n_out_sizes] : 900000;
          size_t sz;

          if (want == 0)
            want = 1;
          if (want != ebuf_cap) {
            free(ebuf);
            ebuf = malloc(want);
            ebuf_cap = want;
          }
          sz = want;
          rv = emit(&ds, ebuf, &sz);
          if (out_append(&ob, ebuf, want - sz) != 0) {
            rv = VG_TOO_BIG;
            break;
          }
          if (rv != MORE)
            break;
          st->emit_suspends++;
          st->emit_state_hist[ds.rle_state >= 0 && ds.rle_state < 7 ? ds.rle_state : 7]++;
        }
        if (rv == OK && ds.crc != hd.crc)
          rv = ERR_BLKCRC;
      }
      decoder_free(&ds);
      if (rv != OK) {
        result = rv;
        break;
      }
    }
  }
  free(ebuf);
  free(curbuf);
  free(words);
  *out = ob.p;
  *outlen = ob.len;
  return result;
}
