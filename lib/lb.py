"""Helpers to run lbzip2 variants."""
import bz2
import os

import core


def sched_env(sched):
    """sched: None | 'perturb:<seed>' | 'serial:<seed>:<strategy>[:...]'"""
    return {"LBZIP2_VERIF_SCHED": sched} if sched else {}


def compress(exe, data, level=9, seq=False, n=None, sched=None, env=None, timeout=180, extra=()):
    argv = [exe, "-z", "-%d" % level]
    if seq:
        argv.append("-u")
    if n:
        argv += ["-n", str(n)]
    argv += list(extra)
    e = dict(sched_env(sched))
    if env:
        e.update(env)
    return core.run(argv, stdin=data, env=e, timeout=timeout)


def decompress(exe, data, n=None, sched=None, env=None, timeout=180, extra=(), ing=None, outg=None):
    argv = [exe, "-d"]
    if n:
        argv += ["-n", str(n)]
    argv += list(extra)
    e = dict(sched_env(sched))
    if ing:
        e["LBZIP2_VERIF_IN_GRANUL"] = str(ing)
    if outg:
        e["LBZIP2_VERIF_OUT_GRANUL"] = str(outg)
    if env:
        e.update(env)
    return core.run(argv, stdin=data, env=e, timeout=timeout)


def ref_decompress(data):
    """libbz2 decoding of a (multi-stream) file; raises on error."""
    return bz2.decompress(data)


def size_class(n):
    for lim, name in ((0, "0"), (100, "<=100"), (10000, "<=10K"), (100000, "<=100K"),
                      (900000, "<=900K"), (4000000, "<=4M")):
        if n <= lim:
            return "size" + name
    return "size>4M"
