"""Python face of bzkit (independent strict bzip2 inspector)."""
import bz2
import json
import os
import subprocess
import tempfile

import core


_LIB = None


def _lib():
    global _LIB
    if _LIB is None:
        import ctypes
        L = ctypes.CDLL(core.tool("libbzkit.so"))
        L.bzk_inspect_json.restype = ctypes.c_void_p
        L.bzk_inspect_json.argtypes = [ctypes.c_char_p, ctypes.c_size_t, ctypes.c_int, ctypes.c_int,
                                       ctypes.POINTER(ctypes.c_void_p), ctypes.POINTER(ctypes.c_size_t)]
        L.bzk_free.argtypes = [ctypes.c_void_p]
        _LIB = L
    return _LIB


def inspect(data, lens=False, freq=False, want_out=True, lenient_crc=False):
    """Returns (info dict, output bytes or None).  In-process call into libbzkit.so."""
    import ctypes
    L = _lib()
    outp = ctypes.c_void_p()
    outl = ctypes.c_size_t()
    js = L.bzk_inspect_json(bytes(data), len(data), int(lens), int(freq) | (2 if lenient_crc else 0),
                            ctypes.byref(outp) if want_out else None, ctypes.byref(outl))
    try:
        info = json.loads(ctypes.string_at(js))
        out = ctypes.string_at(outp.value, outl.value) if want_out else None
    finally:
        L.bzk_free(js)
        if want_out and outp.value:
            L.bzk_free(outp)
    return info, out


def libbz2_streams(data, info):
    """Cross-check helper: decode each complete stream (as delimited by bzkit)
    with libbz2; returns (ok, bytes) where ok is False if libbz2 rejects one."""
    out = []
    for s in info["streams"]:
        if not s.get("end_byte"):
            continue
        chunk = data[s["bit"] // 8:s["end_byte"]]
        d = bz2.BZ2Decompressor()
        try:
            o = d.decompress(chunk)
        except (OSError, ValueError, EOFError):
            return False, b"".join(out)
        if not d.eof or d.unused_data:
            return False, b"".join(out)
        out.append(o)
    return True, b"".join(out)


def libbz2_verdict(data):
    """libbz2's view of the *first* stream onwards, stream by stream, following
    the C05 stream-sequence rule for what may follow a complete stream.
    Returns ('valid', bytes) | ('invalid', partial bytes)."""
    pos = 0
    out = []
    first = True
    n = len(data)
    while True:
        hdr = n - pos >= 4 and data[pos:pos + 3] == b"BZh" and 0x31 <= data[pos + 3] <= 0x39
        if not hdr:
            if first:
                return "invalid", b""
            return "valid", b"".join(out)
        first = False
        d = bz2.BZ2Decompressor()
        try:
            o = d.decompress(data[pos:])
        except (OSError, ValueError, EOFError):
            return "invalid", b"".join(out)
        if not d.eof:
            return "invalid", b"".join(out)
        out.append(o)
        pos = n - len(d.unused_data)


def reseal(data):
    """Rewrite every stored block CRC and stream CRC of `data` so that they match what the (otherwise
    unchanged) stream decodes to.  Returns new bytes, or None when the stream does not parse to the end."""
    import corpus
    info, _ = inspect(data, want_out=False, lenient_crc=True)
    if not info["valid"]:
        return None
    out = data
    for s in info["streams"]:
        for b in s["blocks"]:
            out = corpus.set_bits(out, b["bit_crc"], 32, b["crc_calc"])
        out = corpus.set_bits(out, s["bit_crc"], 32, s["crc_calc"])
    return out


def gen(tape, max_block=4000, allow_big=False, defect=-1):
    """Choice-tape generator (bzkit/bzgen.hpp).  tape: bytes.  defect: -1 valid file, -2 chosen by the tape,
    > 0 a catalogue entry.  Returns (file bytes, plaintext of the valid version, info dict)."""
    import ctypes
    L = _lib()
    if not hasattr(L, "_gen_ready"):
        L.bzk_gen.restype = ctypes.c_void_p
        L.bzk_gen.argtypes = [ctypes.c_char_p, ctypes.c_size_t, ctypes.c_int, ctypes.c_int, ctypes.c_int,
                              ctypes.POINTER(ctypes.c_void_p), ctypes.POINTER(ctypes.c_size_t),
                              ctypes.POINTER(ctypes.c_void_p), ctypes.POINTER(ctypes.c_size_t)]
        L.bzk_gen_ndefects.restype = ctypes.c_int
        L.bzk_gen_defect_name.restype = ctypes.c_char_p
        L.bzk_gen_defect_name.argtypes = [ctypes.c_int]
        L._gen_ready = True
    bp, pp = ctypes.c_void_p(), ctypes.c_void_p()
    bl, pl = ctypes.c_size_t(), ctypes.c_size_t()
    tape = bytes(tape)
    js = L.bzk_gen(tape, len(tape), int(max_block), int(bool(allow_big)), int(defect),
                   ctypes.byref(bp), ctypes.byref(bl), ctypes.byref(pp), ctypes.byref(pl))
    try:
        info = json.loads(ctypes.string_at(js))
        data = ctypes.string_at(bp.value, bl.value)
        plain = ctypes.string_at(pp.value, pl.value)
    finally:
        L.bzk_free(js)
        L.bzk_free(bp)
        L.bzk_free(pp)
    return data, plain, info


def gen_defects():
    import ctypes
    L = _lib()
    gen(b"")
    return [L.bzk_gen_defect_name(i).decode() for i in range(L.bzk_gen_ndefects())]


def gen_sym(tape, max_block=3000, sym_blocks=1, plant=0, defect=-1):
    """Generator with symbol-level blocks (planted bit strings inside coded data, groups of maximal width).
    Returns (file bytes, plaintext by the format's rules, info)."""
    import ctypes
    L = _lib()
    if not hasattr(L, "_gen2_ready"):
        L.bzk_gen2.restype = ctypes.c_void_p
        L.bzk_gen2.argtypes = [ctypes.c_char_p, ctypes.c_size_t, ctypes.c_int, ctypes.c_int, ctypes.c_int, ctypes.c_int,
                               ctypes.c_int, ctypes.POINTER(ctypes.c_void_p), ctypes.POINTER(ctypes.c_size_t),
                               ctypes.POINTER(ctypes.c_void_p), ctypes.POINTER(ctypes.c_size_t)]
        L._gen2_ready = True
    bp, pp = ctypes.c_void_p(), ctypes.c_void_p()
    bl, pl = ctypes.c_size_t(), ctypes.c_size_t()
    tape = bytes(tape)
    js = L.bzk_gen2(tape, len(tape), int(max_block), 0, int(defect), int(sym_blocks), int(plant),
                    ctypes.byref(bp), ctypes.byref(bl), ctypes.byref(pp), ctypes.byref(pl))
    try:
        info = json.loads(ctypes.string_at(js))
        data = ctypes.string_at(bp.value, bl.value)
        plain = ctypes.string_at(pp.value, pl.value)
    finally:
        L.bzk_free(js)
        L.bzk_free(bp)
        L.bzk_free(pp)
    return data, plain, info
