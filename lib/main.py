"""./check <ID> [--tier quick|thorough] [--replay PATH]"""
import argparse
import importlib
import os
import sys
import time

sys.path.insert(0, os.path.dirname(os.path.abspath(__file__)))
import core  # noqa: E402


def main():
    ap = argparse.ArgumentParser()
    ap.add_argument("prop")
    ap.add_argument("--tier", default=os.environ.get("VERIF_TIER", "quick"),
                    choices=["quick", "thorough"])
    ap.add_argument("--replay")
    a = ap.parse_args()
    pid = a.prop.upper()
    mod = importlib.import_module("props." + pid.lower())
    seed = core.env_seed()
    t0 = time.time()
    try:
        if a.replay:
            rc = mod.replay_file(a.replay)
        else:
            rc = mod.run(a.tier, seed)
    except core.HarnessError as e:
        core.log("HARNESS ERROR [%s]: %s" % (pid, e))
        sys.exit(2)
    core.log("[%s] tier=%s seed=%d rc=%d wall=%.1fs" % (pid, a.tier, seed, rc, time.time() - t0))
    sys.exit(rc)


if __name__ == "__main__":
    main()
