"""Mutation operators over valid bzip2 files, driven by small integer lists
(so Hypothesis generates and shrinks them).  An op is a list
[kind, a, b, c]; integers are reduced modulo whatever range applies."""
from hypothesis import strategies as st

import bzk
import corpus

TAILS = [b"B", b"BZ", b"BZh", b"BZh0", b"BZhA", b"BZh:", b"BZh5", b"BZh9", b"BZh5junkjunkjunk", b"\x00", b"\x00" * 7,
         b"x", b"BZh1\x17\x72\x45\x38\x50\x90\x00\x00\x00\x00", b"BZh1\x17\x72\x45\x38\x50\x90\x00\x00\x00",
         b"\x31\x41\x59\x26\x53\x59", b"garbage BZh9\x17\x72\x45\x38\x50\x90\x00\x00\x00\x00"]

FIELD_VALUES = {
    "n_groups": [0, 1, 7, 2, 6],
    "n_selectors": [0, 1, 18001, 18002, 18003, 32767],
    "rand": [1],
    "stream_level": [0x30, 0x3A, 0x41, 0x31, 0x35, 0x39],
}

KINDS = ["trunc", "flipfield", "setfield", "flipbit", "setbyte", "delete", "insert", "append", "origptr",
         "dupblock", "reseal", "trunc_tail"]


def op_strategy():
    return st.lists(st.tuples(st.sampled_from(KINDS), st.integers(0, 2**24), st.integers(0, 2**16),
                              st.integers(0, 255)).map(list), min_size=1, max_size=3)


def apply(f, ops):
    """f: corpus entry; returns (bytes, tags)."""
    data = f["data"]
    info = f["info"]
    flds = corpus.fields(info)
    tags = []
    for kind, a, b, c in ops:
        if len(data) == 0:
            break
        nbits = len(data) * 8
        if kind == "trunc":
            data = data[:a % len(data)]
            tags.append("trunc")
        elif kind == "trunc_tail":
            cut = 1 + b % 16
            data = data[:max(0, len(data) - cut)]
            tags.append("trunc-tail")
        elif kind == "flipfield":
            name, bit, width, si, bi = flds[a % len(flds)]
            if width > 0 and bit + width <= nbits:
                data = corpus.flip_bit(data, bit + b % width)
                tags.append("flip:" + name)
        elif kind == "setfield":
            cands = [x for x in flds if x[0] in FIELD_VALUES]
            name, bit, width, si, bi = cands[a % len(cands)]
            vals = FIELD_VALUES[name]
            if bit + width <= nbits:
                data = corpus.set_bits(data, bit, width, vals[b % len(vals)])
                tags.append("set:" + name)
        elif kind == "origptr":
            cands = [x for x in flds if x[0] == "orig_ptr"]
            if cands:
                name, bit, width, si, bi = cands[a % len(cands)]
                nb = info["streams"][si]["blocks"][bi]["nblock"]
                v = [nb, nb - 1, 0, 0xFFFFFF, nb + 1, b % max(1, nb)][c % 6]
                if bit + width <= nbits:
                    data = corpus.set_bits(data, bit, 24, v & 0xFFFFFF)
                    tags.append("origptr")
        elif kind == "flipbit":
            data = corpus.flip_bit(data, (a * 65536 + b) % nbits)
            tags.append("flipbit")
        elif kind == "setbyte":
            p = (a * 7 + b) % len(data)
            data = data[:p] + bytes([c]) + data[p + 1:]
            tags.append("setbyte")
        elif kind == "delete":
            p = a % len(data)
            data = data[:p] + data[p + 1 + b % 8:]
            tags.append("delete")
        elif kind == "insert":
            p = a % (len(data) + 1)
            data = data[:p] + bytes([c]) * (1 + b % 4) + data[p:]
            tags.append("insert")
        elif kind == "append":
            t = TAILS[a % len(TAILS)]
            if b % 5 == 0:
                t = t + f["data"][:b % 64]
            data = data + t
            tags.append("append")
        elif kind == "dupblock":
            # duplicate the bytes of a byte-aligned block (keeps syntax, breaks the stream CRC)
            bl = [blk for s in info["streams"] for blk in s["blocks"] if blk["bit"] % 8 == 0 and blk["end_bit"] % 8 == 0]
            if bl:
                blk = bl[a % len(bl)]
                lo, hi = blk["bit"] // 8, blk["end_bit"] // 8
                if hi <= len(data):
                    data = data[:hi] + data[lo:hi] + data[hi:]
                    tags.append("dupblock")
        elif kind == "reseal":
            d2 = bzk.reseal(data)
            if d2 is not None:
                data = d2
                tags.append("reseal")
    return data, tags
