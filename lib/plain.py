"""Plaintext families.  A plaintext is a list of *segments* (small JSON
values) that `materialize` turns into bytes; Hypothesis generates and shrinks
the segment list, so failures shrink to few, small segments.

Also the independent model of bzip2's initial run-length encoding used by C04
(`rle1_len`, `greedy_blocks`)."""
import random
import re

import numpy as np
from hypothesis import strategies as st

WORDS = (b"the of and to in is that for it as was with be by on not he this are or his from at "
         b"which but have an had they you were their one all we can her has there been if more "
         b"when will would who so no out up into than them its time only some could these two may "
         b"then do first any my now such like our over man me even most made after also did many "
         b"before must through back years where much your way well down should because each just").split()


def _fib(n):
    a, b = b"a", b"ab"
    while len(b) < n:
        a, b = b, b + a
    return b[:n]


def _thue(n):
    return bytes(0x61 + (bin(i).count("1") & 1) for i in range(n))


_DB_CACHE = {}


def _debruijn(k, n):
    """First n symbols of the order-3 de Bruijn sequence over k letters (FKM)."""
    key = k
    if key not in _DB_CACHE:
        order = 3
        a = [0] * (k * order)
        seq = bytearray()
        # iterative FKM (Lyndon words whose length divides the order)
        def db(t, p):
            if t > order:
                if order % p == 0:
                    seq.extend(a[1:p + 1])
            else:
                a[t] = a[t - p]
                db(t + 1, p)
                for j in range(a[t - p] + 1, k):
                    a[t] = j
                    db(t + 1, t)
        db(1, 1)
        _DB_CACHE.clear()
        _DB_CACHE[key] = bytes(seq)
    s = _DB_CACHE[key]
    if n > len(s):
        s = s * (n // len(s) + 1)
    return bytes(b + 32 for b in s[:n])


def seg_bytes(seg):
    k = seg[0]
    if k == "run":          # ("run", byte, len)
        return bytes([seg[1]]) * seg[2]
    if k == "rand":         # ("rand", n, seed)
        return random.Random(seg[2]).randbytes(seg[1])
    if k == "alpha":        # ("alpha", k, n, seed) k distinct byte values
        r = random.Random(seg[3])
        vals = r.sample(range(256), seg[1])
        return bytes(r.choices(vals, k=seg[2]))
    if k == "fib":
        return _fib(seg[1])
    if k == "thue":
        return _thue(seg[1])
    if k == "tandem":       # ("tandem", unit_len, reps, seed)
        u = random.Random(seg[3]).randbytes(seg[1])
        return u * seg[2]
    if k == "lcp":          # ("lcp", n, seed): long repeated substrings with sparse edits
        r = random.Random(seg[2])
        n = seg[1]
        base = r.randbytes(max(1, n // 8))
        out = bytearray()
        while len(out) < n:
            b = bytearray(base)
            if r.random() < 0.7 and b:
                b[r.randrange(len(b))] ^= 1 << r.randrange(8)
            out += b
        return bytes(out[:n])
    if k == "geo":          # ("geo", n, pshift, seed) geometric byte distribution
        r = random.Random(seg[3])
        p = 1.0 / (1 << seg[2]) if seg[2] else 0.5
        out = bytearray()
        for _ in range(seg[1]):
            v = 0
            while r.random() > p and v < 255:
                v += 1
            out.append(v)
        return bytes(out)
    if k == "text":         # ("text", nwords, seed)
        r = random.Random(seg[2])
        return b" ".join(r.choices(WORDS, k=seg[1])) + b"\n"
    if k == "runs":         # ("runs", nruns, maxlen_class, k, seed): many runs around the limits
        r = random.Random(seg[4])
        lens = [1, 2, 3, 4, 5, 6, 254, 255, 256, 257, 258, 259, 260, 261, 262, 263, 514, 518, 519, 777]
        lens = lens[:max(3, min(len(lens), seg[2]))]
        vals = r.sample(range(256), max(2, seg[3]))
        out = bytearray()
        last = None
        for _ in range(seg[1]):
            v = r.choice(vals)
            if r.random() < 0.7:
                while v == last:
                    v = r.choice(vals)
            out += bytes([v]) * r.choice(lens)
            last = v
        return bytes(out)
    if k == "debruijn":     # ("debruijn", k, n): prefix of an order-3 de Bruijn sequence over k letters
        return _debruijn(seg[1], seg[2])
    if k == "fill":         # ("fill", n, seed): random bytes without any equal neighbours (RLE1 size == n)
        r = random.Random(seg[2])
        b = bytearray(r.randbytes(seg[1]))
        for i in range(1, len(b)):
            if b[i] == b[i - 1]:
                b[i] = (b[i] + 1 + (r.randrange(254))) % 256
                if b[i] == b[i - 1]:
                    b[i] = (b[i] + 1) % 256
        return bytes(b)
    if k == "fillx":        # ("fillx", n, seed, a, b): no equal neighbours, never the byte values a or b
        r = random.Random(seg[2])
        vals = [v for v in range(256) if v != seg[3] and v != seg[4]]
        out = bytearray()
        last = -1
        for _ in range(seg[1]):
            v = r.choice(vals)
            while v == last:
                v = r.choice(vals)
            out.append(v)
            last = v
        return bytes(out)
    if k == "lit":          # ("lit", hexstring)
        return bytes.fromhex(seg[1])
    raise ValueError(seg)


def materialize(segs):
    return b"".join(seg_bytes(tuple(s)) for s in segs)


RUN_LENS = [1, 2, 3, 4, 5, 6, 7, 8, 254, 255, 256, 257, 258, 259, 260, 261, 262, 263,
            514, 515, 516, 517, 518, 519, 520, 777, 1036]


def segment(max_n):
    """Strategy for one segment with at most ~max_n bytes."""
    n = st.integers(1, max_n)
    small = st.integers(1, min(max_n, 64))
    seed = st.integers(0, 2**32 - 1)
    return st.one_of(
        st.tuples(st.just("run"), st.integers(0, 255),
                  st.one_of(st.sampled_from(RUN_LENS), st.integers(1, min(max_n, 70000)))),
        st.tuples(st.just("rand"), n, seed),
        st.tuples(st.just("alpha"), st.sampled_from([1, 2, 3, 4, 16, 64, 256]), n, seed),
        st.tuples(st.just("fib"), n),
        st.tuples(st.just("thue"), n),
        st.tuples(st.just("tandem"), small, st.integers(1, max(1, max_n // 64)), seed),
        st.tuples(st.just("lcp"), n, seed),
        st.tuples(st.just("geo"), st.integers(1, min(max_n, 20000)), st.integers(0, 6), seed),
        st.tuples(st.just("text"), st.integers(1, max(1, max_n // 5)), seed),
        st.tuples(st.just("runs"), st.integers(1, max(1, min(400, max_n // 8))), st.integers(3, 20),
                  st.integers(2, 6), seed),
        st.tuples(st.just("lit"), st.binary(min_size=0, max_size=24).map(bytes.hex)),
    )


def plaintext(max_total=300000, max_segs=6):
    """Strategy: list of segments; sizes are log-ish uniform."""
    def segs(cap):
        return st.lists(segment(cap), min_size=0, max_size=max_segs)
    caps = [c for c in (40, 600, 5000, 40000, 150000, 400000, 1200000, 4000000) if c <= max_total] or [max_total]
    return st.sampled_from(caps).flatmap(segs)


# --------------------------------------------------------------------------
# independent model of the initial run-length encoding (C04)

def run_lengths(data):
    """numpy array of maximal run lengths of a bytes object (in order)."""
    a = np.frombuffer(data, dtype=np.uint8)
    if a.size == 0:
        return np.zeros(0, dtype=np.int64)
    ch = np.flatnonzero(a[1:] != a[:-1]) + 1
    bounds = np.concatenate(([0], ch, [a.size]))
    return np.diff(bounds).astype(np.int64)


def run_cost(L):
    """RLE1 size of a maximal run of length L (numpy or int): every full
    259-run costs 5; a remainder r costs r if r < 4 else 5."""
    r = L % 259
    return 5 * (L // 259) + np.where(r < 4, r, 5)


def rle1_len(data):
    if not data:
        return 0
    return int(run_cost(run_lengths(data)).sum())


def _prefix_cost_in_run(k):
    """cost of the first k bytes of a run (k >= 0), trailing run flushed."""
    r = k % 259
    return 5 * (k // 259) + (r if r < 4 else 5)


def greedy_blocks(data, cap):
    """Split data greedily: each block is the longest prefix of the rest whose
    RLE1 size (trailing run flushed) is <= cap.  Returns list of
    (consumed_bytes, rle1_size).  A block that starts in the middle of a run
    sees the remainder of that run as a fresh run (as the encoder does)."""
    out = []
    if len(data) == 0:
        return out
    rl = run_lengths(data)
    nruns = len(rl)
    cost = run_cost(rl).astype(np.int64)
    cum = np.concatenate(([0], np.cumsum(cost)))     # cum[j] = cost of runs [0, j)
    i = 0          # run index
    off = 0        # bytes of run i already consumed by previous blocks
    while i < nruns:
        used = 0
        consumed = 0
        if off:
            L = int(rl[i]) - off
            c = _prefix_cost_in_run(L)
            if c <= cap:
                used, consumed = c, L
                i += 1
                off = 0
            else:
                k = _max_k(cap, L)
                out.append((k, _prefix_cost_in_run(k)))
                if k == 0:
                    raise AssertionError("model made no progress")
                off += k
                continue
        if i < nruns:
            # whole runs i..j-1 fit: cum[j] - cum[i] <= cap - used
            j = int(np.searchsorted(cum, cum[i] + (cap - used), side="right")) - 1
            j = min(max(j, i), nruns)
            used += int(cum[j] - cum[i])
            consumed += int(rl[i:j].sum())
            i = j
            if i < nruns:
                k = _max_k(cap - used, int(rl[i]))
                used += _prefix_cost_in_run(k)
                consumed += k
                off = k
        out.append((consumed, used))
        if consumed == 0:
            raise AssertionError("model made no progress")
    return out


def _max_k(room, L):
    """max k in [0, L] with _prefix_cost_in_run(k) <= room."""
    if room <= 0:
        return 0
    full = room // 5
    k = full * 259
    rem = room - 5 * full
    # remainder part: r costs r (r<4) or 5 (4<=r<=258)
    if rem >= 5:
        r = 258
    else:
        r = min(rem, 3)
    k += r
    # also: with `full` full runs and rem cost we might instead use fewer full runs? no: cost monotone
    return min(k, L)


def model_blocks(data, level, sequential):
    cap = level * 100000
    if sequential:
        return greedy_blocks(data, cap)
    out = []
    for s in range(0, len(data), cap):
        out.extend(greedy_blocks(data[s:s + cap], cap))
    return out
