"""Choice-tape route shared by C05 (defect catalogue) and C06 (valid streams): Hypothesis generates the tape
(bytes), bzkit/bzgen.hpp turns it into a file."""
from hypothesis import strategies as st

import bzk
import core
import lb

SCHED = st.one_of(
    st.none(), st.none(), st.none(),
    st.tuples(st.sampled_from(["pct", "rw"]), st.integers(0, 10**6), st.integers(1, 3)).map(
        lambda t: "serial:%d:%s:%d:400" % (t[1], t[0], t[2])))

def _seeded_tape(t):
    import random
    return random.Random(t[0]).randbytes(t[1])


# Hypothesis-built byte strings lean towards zeros (= the simplest alternative everywhere: good for shrinking, poor
# for spread), so half of the tapes are uniformly random bytes derived from a generated seed.
TAPE = st.one_of(st.binary(min_size=0, max_size=40), st.binary(min_size=20, max_size=300),
                 st.tuples(st.integers(0, 2**32 - 1), st.sampled_from([12, 60, 250, 1000, 3000])).map(_seeded_tape),
                 st.tuples(st.integers(0, 2**32 - 1), st.sampled_from([12, 60, 250, 1000, 3000])).map(_seeded_tape))


def defect_case_strategy():
    nd = len(bzk.gen_defects())
    return st.fixed_dictionaries({
        "tape": TAPE,
        "defect": st.integers(1, nd - 1),
        "n": st.sampled_from([1, 1, 2, 4, 16]),
        "sched": SCHED,
        "ing": st.sampled_from([None, None, None, 4, 8, 64, 4096]),
    })


def run_c05(exe, tier, seed, eval_bytes):
    """Generator route of C05: one catalogue defect per file (the catalogue entry is part of the case)."""
    names = bzk.gen_defects()

    def ev(case, stats):
        data, plain, info = bzk.gen(case["tape"], max_block=1500, allow_big=(case["defect"] in (14, 15)),
                                    defect=case["defect"])
        tags = ["defect:" + names[case["defect"]]]
        if info["note"]:
            tags.append("defect-not-planted")
        c = {"n": case["n"], "sched": case["sched"], "ing": case["ing"]}
        r = eval_bytes(exe, data, c, stats, tags, "bzgen")
        return r
    # (a) every catalogue entry x K seeded tapes x worker counts: no entry is left to chance
    import random
    r = random.Random(seed * 101 + 3)
    sweep = []
    for d in range(1, len(names)):
        for k in range(5 if tier == "quick" else 50):
            sweep.append({"tape": r.randbytes(r.choice([8, 60, 300, 1200])), "defect": d, "n": r.choice([1, 2, 4]),
                          "sched": None if k % 3 else "serial:%d:pct:2:400" % r.randrange(10**6),
                          "ing": None if k % 4 else r.choice([4, 64, 4096])})
    s1, f1 = core.pmap_cases(ev, sweep)
    # (b) Hypothesis search over tapes
    n = 800 if tier == "quick" else 12000
    s2, f2 = core.hyp_search(defect_case_strategy, ev, n, seed + 7)
    s1.merge(s2)
    return s1, f1 + f2
