"""Shared pieces of the compressor-side checks (C02, C04, C20): case
strategy, running the compressor, inspecting the stream with bzkit."""
from hypothesis import strategies as st

import bzk
import core
import lb
import plain

SCHED = st.one_of(
    st.none(), st.none(), st.none(),
    st.tuples(st.sampled_from(["pct", "rw"]), st.integers(0, 10**6), st.integers(1, 4)).map(
        lambda t: "serial:%d:%s:%d" % (t[1], t[0], t[2])))


def boundary_segs(level_strategy=None):
    """Segment lists built to sit on block-capacity boundaries: a body of
    bytes without runs whose RLE1 size is cap+delta, optionally preceded /
    followed by runs around 4 and 259."""
    def mk(t):
        level, delta, pre_run, post_run, seed, runbyte = t
        cap = level * 100000
        segs = []
        used = 0
        if pre_run:
            segs.append(("run", runbyte, pre_run))
            used = int(plain.run_cost(pre_run))
        body = max(0, cap + delta - used)
        # body must not start with runbyte; 'fill' has no equal neighbours
        segs.append(("fill", body, seed))
        if post_run:
            segs.append(("run", (runbyte + 1) % 256, post_run))
        return level, segs
    return st.tuples(st.integers(1, 9) if level_strategy is None else level_strategy,
                     st.integers(-6, 6),
                     st.sampled_from([0, 0, 3, 4, 5, 258, 259, 260, 263]),
                     st.sampled_from([0, 1, 2, 3, 4, 5, 6, 259, 260, 600]),
                     st.integers(0, 2**32 - 1), st.integers(0, 255)).map(mk)


def edge_segs(level_strategy):
    """Inputs whose N*100000-byte input-buffer edge (sequential mode reads such buffers) falls inside or right
    after a run of t equal bytes while the block has s free slots left: [run A x(5+s)] [fill] [X x t] | [X x u] [Y ...]"""
    def mk(t):
        level, s, tl, u, seed, a, x, k = t
        cap = level * 100000
        if x == a:
            x = (a + 1) % 256
        segs = []
        used = 0
        if s > 0 or seed % 2:
            segs.append(("run", a, 5 + s))
            used = 5 + s
        body = cap * k - used - tl
        segs.append(("fillx", max(0, body), seed, a, x))
        segs.append(("run", x, tl + u))
        segs.append(("fillx", 1 + seed % 50, seed + 1, a, x))
        return level, segs
    return st.tuples(level_strategy, st.integers(0, 4), st.sampled_from([1, 2, 3, 4, 5, 258, 259]),
                     st.sampled_from([0, 0, 1, 2, 3, 255, 256]), st.integers(0, 2**32 - 1), st.integers(0, 255),
                     st.integers(0, 255), st.sampled_from([1, 1, 2])).map(mk)


def case_strategy(max_total, boundary_weight=1, levels=None):
    lv = st.integers(1, 9) if levels is None else st.sampled_from(levels)
    generic = st.fixed_dictionaries({
        "segs": plain.plaintext(max_total),
        "level": lv, "seq": st.booleans(),
        "n": st.sampled_from([1, 2, 3, 4, 8, 16]),
        "sched": SCHED,
    })
    small_lv = st.sampled_from([1, 1, 2, 3]) if max_total < 1000000 else st.integers(1, 9)

    def from_boundary(t):
        (level, segs), seq, n, sched, tail = t
        return {"segs": list(segs) + list(tail), "level": level, "seq": seq, "n": n, "sched": sched}
    boundary = st.tuples(boundary_segs(small_lv), st.booleans(), st.sampled_from([1, 2, 4, 16]), SCHED,
                         st.lists(plain.segment(2000), max_size=2)).map(from_boundary)
    edge = st.tuples(edge_segs(small_lv), st.sampled_from([True, True, False]), st.sampled_from([1, 2, 4, 16]), SCHED,
                     st.lists(plain.segment(2000), max_size=1)).map(from_boundary)
    return st.one_of(*([generic] * 3 + [boundary] * boundary_weight + [edge] * boundary_weight))


def compress_and_inspect(exe, case, lens=False, freq=False):
    """Returns (data, Res, info, decoded) ; info is None when compression failed."""
    data = plain.materialize(case["segs"])
    r = lb.compress(exe, data, case["level"], case["seq"], case["n"], case["sched"])
    if r.timeout or r.rc != 0:
        return data, r, None, None
    info, out = bzk.inspect(r.out, lens=lens, freq=freq)
    return data, r, info, out


def blocks_of(info):
    return [b for s in info["streams"] for b in s["blocks"]]
