"""Shared pieces of the decompressor-side mutation checks (C05, C06, C07)."""
import os

from hypothesis import strategies as st

import bzk
import core
import corpus
import lb
import mutate

SCHED = st.one_of(
    st.none(), st.none(), st.none(),
    st.tuples(st.sampled_from(["pct", "rw"]), st.integers(0, 10**6), st.integers(1, 3)).map(
        lambda t: "serial:%d:%s:%d:400" % (t[1], t[0], t[2])))


def case_strategy(nfiles):
    return st.fixed_dictionaries({
        "file": st.integers(0, nfiles - 1),
        "ops": mutate.op_strategy(),
        "n": st.sampled_from([1, 1, 2, 4, 16]),
        "sched": SCHED,
        "ing": st.sampled_from([None, None, None, 4, 8, 64, 4096]),
    })


def reference(data):
    """(verdict, bytes, info): verdict in valid | invalid | excluded | disagree.
    'excluded' = documented exception classes (a used table that is incomplete
    or oversubscribed)."""
    info, out = bzk.inspect(data)
    v, lo = bzk.libbz2_verdict(data)
    if info["oversub_used"]:
        return "excluded", out, info
    if info["valid"] != (v == "valid") or (info["valid"] and out != lo):
        return "disagree", out, info
    if info["incomplete_used"]:
        return "excluded", out, info
    return ("valid" if info["valid"] else "invalid"), out, info


def run_lbzip2(exe, data, case):
    return lb.decompress(exe, data, case.get("n"), case.get("sched"), ing=case.get("ing"))


def tiny_files(exe, seed, count):
    """Very small valid files (for exhaustive truncation / bit-flip enumeration)."""
    import random
    r = random.Random(seed * 31 + 5)
    out = []
    while len(out) < count:
        parts, pt = [], []
        for _ in range(r.choice([1, 2, 2, 3])):
            d = corpus._plain_small(r, 1, 700)
            if r.random() < 0.5:
                z = corpus._bzip2(d, r.randrange(1, 10))
            else:
                z = lb.compress(exe, d, r.randrange(1, 10), False, 1).out
            parts.append(z)
            pt.append(d)
        if r.random() < 0.3:
            parts.append(r.choice([b"\x00", b"trailing garbage", b"BZ", b"BZh"]))
        z = b"".join(parts)
        info, o = bzk.inspect(z)
        if info["valid"] and o == b"".join(pt):
            out.append({"data": z, "plain": o, "desc": "tiny-%dB-%dstreams" % (len(z), len(info["streams"])),
                        "info": info})
    return out
