"""C21 — I/O failures on filters terminate promptly.

For generated filter runs (compress / decompress / -cdf copy, several sizes and worker counts) a counting run lists
every read() and write() the program issues on its data path (LD_PRELOAD shim rt/iofault.c); then ONE run per
(call position, error) injects that error at that call.  Real faults are added: a reader that closes the pipe early,
/dev/full, RLIMIT_FSIZE, SIGPIPE inherited as ignored."""
import errno
import os
import random
import resource
import signal
import subprocess
import time

import bz2

import core
import plain

PID = "C21"
RULE = ("scenario = (mode compress|decompress|copy, input of 1-14 input chunks, workers 1/2/4/16, level); a counting run "
        "lists every data-path read()/write(); enumeration (exhaustive per scenario): every read position x {EIO, EINTR-free "
        "EBADF-like EIO}, every write position x {EPIPE(+SIGPIPE), EFBIG(+SIGXFSZ), ENOSPC, EIO}, each also with SIGPIPE "
        "inherited as ignored for EPIPE; real faults: reader closing the pipe after k bytes, stdout=/dev/full, RLIMIT_FSIZE; "
        "oracle: the process ends (no hang: a timeout must reproduce in 3 solo re-runs), exit status 1 or death by SIGPIPE / "
        "SIGXFSZ only when that error was injected with the default action, never exit 0 and never any other status or "
        "signal, stderr non-empty (naming the program) unless the error is EPIPE/EFBIG; non-trivial = the fault hits after "
        ">= 1 successful call of the same kind (mid-stream); distinct by (scenario, op, position, errno, sigpipe mode)")
TIMEOUT = 30

ERRS = {"EPIPE": errno.EPIPE, "EFBIG": errno.EFBIG, "ENOSPC": errno.ENOSPC, "EIO": errno.EIO}


def scenarios(exe, seed, tier):
    r = random.Random(seed * 13 + 2)
    out = []
    shapes = [("compress", 1), ("compress", 5), ("decompress", 1), ("decompress", 6), ("copy", 3), ("compress", 12),
              ("decompress", 14), ("copy", 1), ("copy", 9)]
    if tier != "quick":
        shapes += [("compress", 14), ("compress", 3), ("decompress", 3), ("compress", 8), ("decompress", 9),
                   ("copy", 5), ("compress", 2), ("decompress", 2)]
        for k in range(30):
            shapes.append((["compress", "decompress", "copy"][k % 3], r.randrange(1, 41)))
    for i, (mode, chunks) in enumerate(shapes):
        n = [1, 2, 4, 16][(i + seed) % 4]
        if mode == "compress":
            seq = bool((i + seed) % 3 == 0)
            size = chunks * 100000 - r.randrange(1, 50000)
            data = plain.seg_bytes(("text", size // 5 + 1, r.randrange(1 << 30)))[:size // 2] + r.randbytes(size - size // 2)
            argv = ["-z", "-1", "-n", str(n)] + (["-u"] if seq else [])
        elif mode == "decompress":
            # many small blocks; output several times the 900000-byte buffers
            parts = [plain.seg_bytes(("text", 60000, r.randrange(1 << 30))) for _ in range(chunks)]
            data = b"".join(bz2.compress(p, 1) for p in parts)
            argv = ["-d", "-n", str(n)]
        else:
            size = chunks * 65536 + r.randrange(-2, 3)
            data = b"not bzip2 " + r.randbytes(size)
            argv = ["-cdf", "-n", str(n)]
        if i % 2:
            argv = argv + ["-v"]      # verbose: the main thread has already used stderr when a sub-thread fails
        out.append({"mode": mode, "chunks": chunks, "n": n, "argv": argv, "data": data,
                    "id": "%s-%dchunks-n%d-%s" % (mode, chunks, n, core.fp(data)[:6])})
    return out


def count_calls(exe, shim, sc, td):
    inp = os.path.join(td, "in-" + sc["id"])
    with open(inp, "wb") as f:
        f.write(sc["data"])
    log = os.path.join(td, "log-" + sc["id"])
    r = core.run([exe] + sc["argv"], env={"LD_PRELOAD": shim, "IOFAULT": "log=" + log}, stdin_file=inp, timeout=TIMEOUT)
    if r.rc != 0:
        raise core.HarnessError("fault-free run of scenario %s failed: rc=%s %r" % (sc["id"], r.rc, r.err[:200]))
    sc["ref_out"] = r.out
    nr = nw = 0
    with open(log) as f:
        for line in f:
            w = line.split()
            if w[0] == "read" and w[1] == "0":
                nr += 1
            elif w[0] == "write" and w[1] == "1":
                nw += 1
    sc["inp"] = inp
    sc["reads"], sc["writes"], sc["out_len"] = nr, nw, len(r.out)
    return sc


def judge(r, err_name, sigpipe_ignored, real=None):
    """r: core.Res.  Returns violation text or None."""
    if r.timeout:
        return "HANG"
    rc = r.rc
    allowed_sig = None
    if err_name == "EPIPE" and not sigpipe_ignored:
        allowed_sig = signal.SIGPIPE
    if err_name == "EFBIG":
        allowed_sig = signal.SIGXFSZ
    if rc == 0:
        return "exit status 0 after a failed %s" % (real or err_name)
    if rc is not None and rc < 0:
        if allowed_sig is not None and -rc == allowed_sig:
            return None
        return "killed by signal %d (injected %s)" % (-rc, real or err_name)
    if rc != 1:
        return "exit status %s (expected 1); stderr %r" % (rc, r.err[:200])
    if err_name not in ("EPIPE", "EFBIG"):
        if not r.err.strip():
            return "exit 1 without a diagnostic after %s" % err_name
        if b"lbzip2" not in r.err:
            return "diagnostic does not name the program: %r" % r.err[:200]
    return None


def _ign_sigpipe():
    signal.signal(signal.SIGPIPE, signal.SIG_IGN)


def run_item(exe, shim, sc, item):
    op, k, en, ign = item["op"], item["k"], item["err"], item["ign"]
    env = {"LD_PRELOAD": shim, "IOFAULT": "fail=%s:%d:%d" % (op, k, ERRS[en])}
    return run_raw([exe] + sc["argv"], env, sc["inp"], ign)


def run_raw(argv, env, inp, ign, stdout=None, preexec=None, timeout=TIMEOUT):
    e = dict(core.BASE_ENV)
    e.update(env)
    t = time.time()
    with open(inp, "rb") as fin:
        def pre():
            if ign:
                _ign_sigpipe()
            if preexec:
                preexec()
        p = subprocess.Popen(argv, stdin=fin, stdout=stdout if stdout is not None else subprocess.PIPE,
                             stderr=subprocess.PIPE, env=e, start_new_session=True,
                             restore_signals=not ign, preexec_fn=pre)
        try:
            out, err = p.communicate(timeout=timeout)
            to = False
        except subprocess.TimeoutExpired:
            try:
                os.killpg(p.pid, signal.SIGKILL)
            except ProcessLookupError:
                pass
            out, err = p.communicate()
            to = True
    return core.Res(p.returncode, out or b"", err, to, time.time() - t)


def _failed_write(log):
    """Did the kernel fail a write() on standard output in this run?  (shim log: op fd arg result errno)"""
    hit = False
    try:
        with open(log) as f:
            for line in f:
                w = line.split()
                if len(w) >= 5 and w[0] == "write" and w[1] == "1" and int(w[3]) < 0:
                    hit = True
        os.unlink(log)
    except (OSError, ValueError):
        pass
    return hit


def run_real(exe, sc, item, td, shim):
    """Real kernel faults; the shim only logs, so that the oracle knows whether a write really failed (a reader
    that closes a pipe whose buffer already holds all the output makes nothing fail)."""
    kind = item["real"]
    argv = [exe] + sc["argv"]
    log = os.path.join(td, "rlog-%d-%d" % (os.getpid(), random.getrandbits(30)))
    lenv = {"LD_PRELOAD": shim, "IOFAULT": "log=" + log}
    if kind == "devfull":
        with open("/dev/full", "wb") as f:
            r = run_raw(argv, lenv, sc["inp"], False, stdout=f)
        return r, "ENOSPC", _failed_write(log)
    if kind == "fsize":
        lim = item["k"]
        outp = os.path.join(td, "o-%s-%d" % (sc["id"], os.getpid()))

        def pre():
            resource.setrlimit(resource.RLIMIT_FSIZE, (lim, lim))
        with open(outp, "wb") as f:
            r = run_raw(argv, {}, sc["inp"], False, stdout=f, preexec=pre)    # no log: the limit would hit the log file too
        try:
            os.unlink(outp)
        except OSError:
            pass
        return r, "EFBIG", lim < sc["out_len"]
    # early-closing reader: read k bytes from the pipe, then close it
    e = dict(core.BASE_ENV)
    e.update(lenv)
    ign = item["ign"]
    t = time.time()
    with open(sc["inp"], "rb") as fin:
        p = subprocess.Popen(argv, stdin=fin, stdout=subprocess.PIPE, stderr=subprocess.PIPE, env=e,
                             start_new_session=True, restore_signals=not ign,
                             preexec_fn=_ign_sigpipe if ign else None)
        got = 0
        while got < item["k"]:
            b = p.stdout.read(min(65536, item["k"] - got))
            if not b:
                break
            got += len(b)
        p.stdout.close()
        try:
            p.wait(timeout=TIMEOUT)
            to = False
        except subprocess.TimeoutExpired:
            os.killpg(p.pid, signal.SIGKILL)
            p.wait()
            to = True
        err = p.stderr.read()
        p.stderr.close()
    return core.Res(p.returncode, b"", err, to, time.time() - t), "EPIPE", _failed_write(log)


def make_eval(exe, shim, scs, td):
    def ev(item, stats):
        sc = scs[item["sc"]]
        tries = 0
        while True:
            failed = True
            if item.get("short") is not None:
                # no fault at all: every read()/write() is merely cut short (legal); output must be complete
                r = run_raw([exe] + sc["argv"], {"LD_PRELOAD": shim, "IOFAULT": "short=%d" % item["short"]}, sc["inp"], False)
                en = "none"
                bad = None if (r.rc == 0 and r.out == sc["ref_out"]) else \
                    "short reads/writes without any error: exit %s, %d of %d output bytes, stderr %r" % (
                        r.rc, len(r.out), len(sc["ref_out"]), r.err[:200])
                if r.timeout:
                    bad = "HANG"
                if bad != "HANG":
                    break
                tries += 1
                if tries >= 3:
                    bad = "hang: no exit within %d s in 3 consecutive runs" % TIMEOUT
                    break
                continue
            if item.get("real"):
                r, en, failed = run_real(exe, sc, item, td, shim)
            else:
                r, en = run_item(exe, shim, sc, item), item["err"]
            if failed or r.timeout:
                bad = judge(r, en, item["ign"], item.get("real"))
            else:
                # no write failed (e.g. all output already sat in the pipe buffer): the run must simply succeed
                bad = None if r.rc == 0 else "exit %s although no write failed; stderr %r" % (r.rc, r.err[:200])
            if bad != "HANG":
                break
            tries += 1
            if tries >= 3:
                bad = "hang: no exit within %d s in 3 consecutive runs" % TIMEOUT
                break
        nontriv = item["k"] >= 2 and failed
        if item.get("real") and not failed:
            stats.extra["real-fault-did-not-bite(no write failed)"] += 1
        labels = [sc["mode"], item.get("real") or ("%s:%s" % (item["op"], item["err"])), "workers=%d" % sc["n"]]
        if "-v" in sc["argv"]:
            labels.append("verbose")
        if item["ign"]:
            labels.append("SIGPIPE-ignored")
        if r.rc is not None and r.rc < 0:
            labels.append("died-by-signal-%d" % -r.rc)
        else:
            labels.append("exit-%s" % r.rc)
        stats.add(core.fp(sc["id"], item), nontriv, labels,
                  {"scenario": sc["id"], "fault": {k: v for k, v in item.items() if k != "sc"}, "rc": r.rc,
                   "stderr": r.err[:120].decode(errors="replace")})
        if bad:
            return {"scenario": sc["id"], "sc": item["sc"], "item": item, "what": bad, "rc": r.rc,
                    "stderr": r.err[:300].decode(errors="replace")}
        return None
    return ev


def items_for(scs, seed, tier):
    r = random.Random(seed)
    items = []
    for i, sc in enumerate(scs):
        for k in range(1, sc["reads"] + 1):
            items.append({"sc": i, "op": "read", "k": k, "err": "EIO", "ign": False})
        for k in range(1, sc["writes"] + 1):
            for en in ("EPIPE", "EFBIG", "ENOSPC", "EIO"):
                items.append({"sc": i, "op": "write", "k": k, "err": en, "ign": False})
            items.append({"sc": i, "op": "write", "k": k, "err": "EPIPE", "ign": True})
        items.append({"sc": i, "real": "devfull", "k": 1, "ign": False, "op": "write", "err": "ENOSPC"})
        for j in range(2 if tier == "quick" else 6):
            items.append({"sc": i, "short": r.randrange(10**6), "k": 2, "ign": False, "op": "read+write", "err": "short"})
        ol = max(1, sc["out_len"])
        cuts = sorted({0, 1, ol // 3, ol // 2, ol - 1, ol} | {r.randrange(ol) for _ in range(3 if tier == "quick" else 12)})
        for c in cuts:
            items.append({"sc": i, "real": "closepipe", "k": c, "ign": False, "op": "write", "err": "EPIPE"})
            if c % 2 == 0:
                items.append({"sc": i, "real": "closepipe", "k": c, "ign": True, "op": "write", "err": "EPIPE"})
        for c in sorted({0, 1, ol // 2, ol - 1} | {r.randrange(ol) for _ in range(2 if tier == "quick" else 8)}):
            items.append({"sc": i, "real": "fsize", "k": c, "ign": False, "op": "write", "err": "EFBIG"})
    return items


def _prepare(exe, shim, seed, tier, td):
    scs = scenarios(exe, seed, tier)
    return [count_calls(exe, shim, sc, td) for sc in scs]


def replay_case(case):
    exe = core.build("rel")
    shim = core.tool("iofault.so")
    with core.TempDir() as td:
        scs = _prepare(exe, shim, case["seed"], case["tier"], td)
        return make_eval(exe, shim, scs, td)(case["item"], core.Stats())


def replay_file(path):
    r = replay_case(core.load_replay(path))
    if r is not None:
        print("VIOLATION property=%s replay=%s" % (PID, path))
        core.log(r["what"])
        return 1
    return 0


def run(tier, seed):
    t0 = time.time()
    exe = core.build("rel")
    shim = core.tool("iofault.so")
    with core.TempDir() as td:
        scs = _prepare(exe, shim, seed, tier, td)
        items = items_for(scs, seed, tier)
        stats, fails = core.pmap_cases(make_eval(exe, shim, scs, td), items)
        for f in fails:
            f["seed"], f["tier"] = seed, tier
        oc = core.conclude(PID, fails, replay_case)
    stats.extra["scenarios"] = len(scs)
    stats.extra["read-positions"] = sum(s["reads"] for s in scs)
    stats.extra["write-positions"] = sum(s["writes"] for s in scs)
    core.write_evidence(PID, tier, seed, "fault_enumeration", stats, RULE, time.time() - t0,
                        violations=len(oc.violations), exhaustive=True,
                        assumptions=["exhaustive over the call positions of the listed scenarios only",
                                     "injected errors are returned by an LD_PRELOAD shim exactly as the kernel would "
                                     "(EPIPE/EFBIG also raise SIGPIPE/SIGXFSZ in the calling thread)"])
    return oc.rc()
