"""In-process property targets (inproc/targets.cpp + inproc/glue_*.c).

The C++ side (properties, oracles, rapidcheck / libFuzzer drivers) is compiled once by setup.sh.  The glue objects --
which #include lbzip2's encode.c / decode.c / parse.c -- are compiled here from the CURRENT /repo tree (ASan + UBSan,
asserts on) and linked with it.  `run_target` runs one property under rapidcheck in 16 processes with seeds derived
from VERIF_SEED; a failure leaves the shrunk tape in a file which becomes the replay."""
import fcntl
import hashlib
import json
import os
import shutil
import subprocess
import tempfile
import time

import core

GLUE = ["glue_enc.c", "glue_dec.c", "glue_misc.c"]
REPO_C = ["crctab.c", "divbwt.c"]
CFLAGS = ["-O1", "-g", "-std=gnu99", "-w", "-fno-omit-frame-pointer", "-fsanitize=address,undefined",
          "-fno-sanitize-recover=undefined"] + core.DEFS[:4]
FUZZ_PROPS = ["decode_raw", "decode_defect", "decode_valid", "decode_sym", "roundtrip", "collect"]
ENV = {"ASAN_OPTIONS": "detect_leaks=0:abort_on_error=0:exitcode=99:allocator_may_return_null=1",
       "UBSAN_OPTIONS": "print_stacktrace=1:halt_on_error=1:exitcode=99", "PATH": "/usr/bin:/bin", "LC_ALL": "C"}


def _hash():
    h = hashlib.sha256()
    for d, names in ((os.path.join(core.REPO, "src"), None), (os.path.join(core.ROOT, "inproc"), None)):
        for fn in sorted(os.listdir(d)):
            if fn.endswith((".c", ".h", ".cpp")):
                h.update(fn.encode())
                with open(os.path.join(d, fn), "rb") as f:
                    h.update(f.read())
    for fn in ("bzkit.hpp", "bzgen.hpp"):
        with open(os.path.join(core.ROOT, "bzkit", fn), "rb") as f:
            h.update(f.read())
    h.update(repr(CFLAGS).encode())
    return h.hexdigest()[:16]


def build(fuzz=False):
    """Returns the directory holding vtargets (and fuzz_<prop> when fuzz=True)."""
    core.tool("targets_rc.o")
    out = os.path.join(core.BUILD, "inproc-" + _hash())
    need = [os.path.join(out, "vtargets")] + ([os.path.join(out, "fuzz_" + p) for p in FUZZ_PROPS] if fuzz else [])
    if all(os.path.exists(p) for p in need):
        os.utime(out, None)
        return out
    os.makedirs(core.BUILD, exist_ok=True)
    lockf = open(os.path.join(core.BUILD, ".lock-inproc"), "w")
    fcntl.flock(lockf, fcntl.LOCK_EX)
    try:
        if all(os.path.exists(p) for p in need):
            return out
        os.makedirs(out, exist_ok=True)
        objs = []
        procs = []
        for variant, extra in (("", []), ("fz", ["-fsanitize=fuzzer-no-link"])):
            if variant and not fuzz:
                continue
            for src in [os.path.join(core.ROOT, "inproc", g) for g in GLUE] + \
                    [os.path.join(core.REPO, "src", c) for c in REPO_C]:
                o = os.path.join(out, variant + os.path.basename(src)[:-2] + ".o")
                cmd = ["clang"] + CFLAGS + extra + ["-I", os.path.join(core.REPO, "src"),
                                                     "-I", os.path.join(core.ROOT, "inproc"), "-c", src, "-o", o]
                procs.append((cmd, subprocess.Popen(cmd, stdout=subprocess.PIPE, stderr=subprocess.STDOUT)))
                objs.append((variant, o))
        for cmd, p in procs:
            o, _ = p.communicate()
            if p.returncode != 0:
                raise core.HarnessError("in-process glue does not compile against this tree: %s\n%s" % (
                    " ".join(cmd), o.decode(errors="replace")[-3000:]))
        tdir = os.path.join(core.BUILD, "tools")
        links = [(["clang++", "-fsanitize=address,undefined", os.path.join(tdir, "targets_rc.o")] +
                  [o for v, o in objs if v == ""] + ["-lrapidcheck", "-o", os.path.join(out, "vtargets.tmp")],
                  os.path.join(out, "vtargets"))]
        if fuzz:
            for p in FUZZ_PROPS:
                links.append((["clang++", "-fsanitize=fuzzer,address,undefined", os.path.join(tdir, "targets_fz_%s.o" % p)] +
                              [o for v, o in objs if v == "fz"] + ["-o", os.path.join(out, "fuzz_%s.tmp" % p)],
                              os.path.join(out, "fuzz_" + p)))
        ps = [(c, f, subprocess.Popen(c, stdout=subprocess.PIPE, stderr=subprocess.STDOUT)) for c, f in links]
        for c, f, p in ps:
            o, _ = p.communicate()
            if p.returncode != 0:
                raise core.HarnessError("link failed: %s\n%s" % (" ".join(c), o.decode(errors="replace")[-2000:]))
            os.rename(c[-1], f)
        core._prune_builds("inproc", 3)
        return out
    finally:
        fcntl.flock(lockf, fcntl.LOCK_UN)
        lockf.close()


def _run_one(args):
    exe, prop, seed, n, max_size, tmp, idx = args
    stats = os.path.join(tmp, "st-%s-%d.json" % (prop, idx))
    failf = os.path.join(tmp, "fail-%s-%d.bin" % (prop, idx))
    env = dict(ENV)
    env["RC_PARAMS"] = "seed=%d max_success=%d max_size=%d" % (seed, n, max_size)
    env["VT_STATS"] = stats
    env["VT_FAILFILE"] = failf
    t = time.time()
    try:
        p = subprocess.run([exe, "rc", prop], env=env, stdout=subprocess.PIPE, stderr=subprocess.PIPE, timeout=3600)
        rc, out, err = p.returncode, p.stdout, p.stderr
    except subprocess.TimeoutExpired as e:
        rc, out, err = None, e.stdout or b"", e.stderr or b""
    st = None
    if os.path.exists(stats):
        try:
            with open(stats) as f:
                st = json.load(f)
        except ValueError:
            st = None
    tape = None
    if os.path.exists(failf):
        with open(failf, "rb") as f:
            tape = f.read()
    return {"rc": rc, "out": out[-3000:].decode(errors="replace"), "err": err[-6000:].decode(errors="replace"),
            "stats": st, "tape": tape, "seed": seed, "wall": time.time() - t}


def run_target(prop, seed, n_cases, max_size=100, nproc=None):
    """Runs `vtargets rc <prop>` in parallel.  Returns dict(evaluations, nontrivial_count, labels, samples,
    fails=[{prop, tape_hex, what}], crashes)."""
    import multiprocessing.pool
    d = build()
    exe = os.path.join(d, "vtargets")
    nproc = nproc or core.NCPU
    per = max(1, n_cases // nproc)
    res = {"evaluations": 0, "nontrivial": 0, "labels": {}, "samples": [], "fails": [], "inconclusive": 0}
    with core.TempDir() as tmp:
        jobs = [(exe, prop, seed * 100003 + i * 7919 + 1, per, max_size, tmp, i) for i in range(nproc)]
        with multiprocessing.pool.ThreadPool(nproc) as tp:
            outs = tp.map(_run_one, jobs)
    for o in outs:
        st = o["stats"]
        if st:
            res["evaluations"] += st["evaluations"]
            res["nontrivial"] += st["distinct_nontrivial"]      # distinct within a process; seeds differ across processes
            for k, v in st["labels"].items():
                res["labels"][k] = res["labels"].get(k, 0) + v
            for s in st["samples"]:
                if len(res["samples"]) < 10:
                    res["samples"].append(prop + ": " + s)
        if o["rc"] == 0:
            continue
        if o["rc"] is None:
            res["inconclusive"] += 1
            continue
        what = None
        for line in o["out"].splitlines():
            if line.startswith("FALSIFIED"):
                what = line
        if what is None:
            # sanitizer report / assertion / crash: no shrinking happened, the tape is the last one generated
            tail = [l for l in o["err"].splitlines() if "ERROR" in l or "runtime error" in l or "Assertion" in l or "SUMMARY" in l]
            what = "crash / sanitizer report (rc %s): %s" % (o["rc"], " | ".join(tail[:4]) or o["err"][-400:])
        if o["rc"] == 2:
            raise core.HarnessError("in-process target %s: %s\n%s" % (prop, o["out"][-500:], o["err"][-500:]))
        res["fails"].append({"inproc": prop, "tape_hex": o["tape"].hex() if o["tape"] is not None else None,
                             "what": "[in-process %s] %s" % (prop, what), "rc_seed": o["seed"]})
    return res


def replay(case):
    """Replays an in-process failure; returns the failure dict again if it still fails."""
    d = build()
    exe = os.path.join(d, "vtargets")
    if case.get("tape_hex") is None:
        # a crash before any tape was saved: re-run the same seed
        o = _run_one((exe, case["inproc"], case["rc_seed"], 20000, 100, tempfile.mkdtemp(prefix="vfip", dir="/tmp"), 0))
        return case if o["rc"] not in (0, None) else None
    with tempfile.NamedTemporaryFile(prefix="vftape", dir="/tmp", delete=False) as f:
        f.write(bytes.fromhex(case["tape_hex"]))
        path = f.name
    try:
        p = subprocess.run([exe, "replay", case["inproc"], path], env=ENV, stdout=subprocess.PIPE,
                           stderr=subprocess.PIPE, timeout=600)
    finally:
        os.unlink(path)
    if p.returncode == 0:
        return None
    c = dict(case)
    c["what"] = "[in-process %s] %s" % (case["inproc"], (p.stdout[-300:] + p.stderr[-600:]).decode(errors="replace"))
    return c


def merge_into(stats, res, prefix):
    """Adds an in-process result to a core.Stats (labels prefixed)."""
    stats.evaluations += res["evaluations"]
    for k, v in res["labels"].items():
        stats.labels[prefix + k] += v
    stats.inconclusive += res["inconclusive"]
    for i in range(res["nontrivial"]):
        pass
    stats.extra[prefix + "distinct_nontrivial"] += res["nontrivial"]
    for s in res["samples"]:
        if len(stats.samples) < 12:
            stats.samples.append({"in-process": s})


def run_dfa():
    d = build()
    p = subprocess.run([os.path.join(d, "vtargets"), "dfa"], env=ENV, stdout=subprocess.PIPE, stderr=subprocess.PIPE)
    return p.returncode, p.stdout.decode(errors="replace")


def fuzz(prop, seed, runs, max_len=2048, seeds_dir=None, workers=16, max_total_time=None):
    """libFuzzer campaign (fork mode).  Returns dict(execs, crashes=[{tape_hex, what}], corpus_size, cov)."""
    d = build(fuzz=True)
    exe = os.path.join(d, "fuzz_" + prop)
    res = {"execs": 0, "crashes": [], "corpus": 0, "features": 0}
    with core.TempDir(prefix="vffz") as tmp:
        corpus = os.path.join(tmp, "corpus")
        art = os.path.join(tmp, "art")
        os.makedirs(corpus)
        os.makedirs(art)
        if seeds_dir:
            for i, fn in enumerate(sorted(os.listdir(seeds_dir))):
                shutil.copy(os.path.join(seeds_dir, fn), os.path.join(corpus, "seed%04d" % i))
        args = [exe, corpus, "-seed=%d" % seed, "-runs=%d" % runs, "-max_len=%d" % max_len, "-artifact_prefix=" + art + "/",
                "-print_final_stats=1", "-fork=%d" % workers, "-ignore_ooms=1", "-ignore_timeouts=1", "-rss_limit_mb=3000",
                "-timeout=60"]
        if max_total_time:
            args.append("-max_total_time=%d" % max_total_time)
        env = dict(ENV)
        env["VT_STATS"] = os.path.join(tmp, "st.json")
        try:
            p = subprocess.run(args, env=env, stdout=subprocess.PIPE, stderr=subprocess.PIPE,
                               timeout=(max_total_time or 3000) + 600)
            log = p.stderr.decode(errors="replace")
        except subprocess.TimeoutExpired as e:
            log = (e.stderr or b"").decode(errors="replace")
        import re
        for m in re.finditer(r"stat::number_of_executed_units:\s*(\d+)", log):
            res["execs"] = max(res["execs"], int(m.group(1)))
        m = re.findall(r"#(\d+):? cov: (\d+) ft: (\d+) corp: (\d+)", log)
        if m:
            res["execs"] = max(res["execs"], int(m[-1][0]))
            res["cov"], res["features"], res["corpus"] = int(m[-1][1]), int(m[-1][2]), int(m[-1][3])
        for fn in sorted(os.listdir(art)):
            if fn.startswith(("crash-", "leak-")):
                with open(os.path.join(art, fn), "rb") as f:
                    tape = f.read()
                res["crashes"].append({"inproc": prop, "tape_hex": tape.hex(), "what": "[libFuzzer %s] %s" % (prop, fn)})
        res["log_tail"] = log[-1500:]
    return res


def add(stats, fails, prop, seed, n_cases, max_size=100):
    """Run an in-process property and fold its result into a check's Stats / failure list."""
    res = run_target(prop, seed, n_cases, max_size)
    merge_into(stats, res, "inproc:%s:" % prop)
    for i in range(res["nontrivial"]):
        stats.nontrivial.add(("inproc", prop, i))
    fails.extend(res["fails"])
    return res


def replay_any(case, fallback):
    """Dispatch: in-process failures carry an 'inproc' key."""
    if case.get("inproc"):
        return replay(case)
    return fallback(case)
