"""C16 — interrupted or failed runs never lose data.

Scenario = FILE operand(s) in a fresh directory (compress / decompress, with and without -k, one small and one
multi-block input, one or two operands).  A counting run under the LD_PRELOAD shim lists every data-path system call
(read write close open unlink fchown fchmod futimens).  Then ONE run per (call position, fault): an error return for
that call, or SIGINT / SIGTERM / SIGKILL delivered right before / right after it.  After the process is gone the
directory must be in one of the two states of the property."""
import errno
import os
import random
import shutil
import signal
import time

import bz2

import core
import plain

PID = "C16"
RULE = ("scenario = (compress|decompress, -k or not, small or multi-block input, 1 or 2 FILE operands, workers); "
        "enumeration (exhaustive per scenario): every position of read/write/close/open/unlink/fchown/fchmod/futimens x "
        "{error return: EIO ENOSPC EDQUOT EFBIG(+SIGXFSZ) on write, EIO on read/close, EACCES on open, EPERM on "
        "unlink/fchown/fchmod/futimens} and x {SIGINT, SIGTERM, SIGKILL} x {before, after the call}; plus seeded wall-clock "
        "signals and a corrupt operand; oracle on the directory after the process is gone: per operand either A (input "
        "byte-identical, no output file; status 1 or death by the injected signal; status 4 when the injected fault made "
        "lbzip2 skip the operand) or B (output complete = equal to the fault-free output, input removed unless -k; status 0 "
        "or 4 or death by the injected signal); SIGKILL: input intact or complete output present; an injected unlink error "
        "may leave both files; no other file may appear; non-trivial = fault strictly between output creation and input "
        "removal; distinct by (scenario, op, position, fault)")
TIMEOUT = 30
OPS = ["read", "write", "close", "open", "unlink", "fchown", "fchmod", "futimens"]
ERR_FOR = {"read": ["EIO"], "write": ["EIO", "ENOSPC", "EDQUOT", "EFBIG"], "close": ["EIO"], "open": ["EACCES"],
           "unlink": ["EPERM"], "fchown": ["EPERM"], "fchmod": ["EPERM"], "futimens": ["EPERM"]}
ENO = {"EIO": errno.EIO, "ENOSPC": errno.ENOSPC, "EDQUOT": errno.EDQUOT, "EFBIG": errno.EFBIG, "EACCES": errno.EACCES,
       "EPERM": errno.EPERM}
SIGS = {"SIGINT": signal.SIGINT, "SIGTERM": signal.SIGTERM, "SIGKILL": signal.SIGKILL}


def scenarios(seed, tier):
    r = random.Random(seed * 29 + 5)
    out = []
    combos = [("compress", False, "small", 1), ("compress", True, "multi", 1), ("decompress", False, "multi", 1),
              ("decompress", True, "small", 1), ("compress", False, "small", 2), ("decompress", False, "small", 2)]
    combos += [("compress", False, "multi", 1), ("decompress", False, "small", 1)]
    if tier != "quick":
        combos += [("compress", True, "small", 1), ("decompress", True, "multi", 1), ("compress", True, "multi", 2),
                   ("decompress", False, "multi", 2)]
        # the thorough tier: every combination, with larger inputs (more read/write positions) and three operands
        for mode in ("compress", "decompress"):
            for keep in (False, True):
                for size in ("small", "multi", "large"):
                    for nops in (1, 2, 3):
                        if (mode, keep, size, nops) not in combos and not (size == "large" and nops == 3):
                            combos.append((mode, keep, size, nops))
    for i, (mode, keep, size, nops) in enumerate(combos):
        n = [1, 2, 4, 16][(i + seed) % 4] if tier != "quick" else [1, 2, 4][(i + seed) % 3]
        ops = []
        for j in range(nops):
            if size == "small":
                d = plain.seg_bytes(("text", 300 + 40 * j, r.randrange(1 << 30)))
            elif size == "large":
                d = plain.seg_bytes(("text", 120000, r.randrange(1 << 30))) + r.randbytes(500000)
            else:
                d = plain.seg_bytes(("text", 50000, r.randrange(1 << 30))) + r.randbytes(60000)
            name = "f%d.dat" % j
            if mode == "compress":
                ops.append({"in_name": name, "out_name": name + ".bz2", "in_bytes": d})
            else:
                z = b"".join(bz2.compress(d[k:k + 90000], 1) for k in range(0, len(d), 90000))
                ops.append({"in_name": name + ".bz2", "out_name": name, "in_bytes": z, "plain": d})
        argv = (["-z", "-1"] if mode == "compress" else ["-d"]) + ["-n", str(n)] + (["-k"] if keep else [])
        out.append({"mode": mode, "keep": keep, "size": size, "n": n, "ops": ops, "argv": argv,
                    "id": "%s%s-%s-%dop-n%d" % (mode, "-k" if keep else "", size, nops, n)})
    return out


def populate(td, sc):
    os.makedirs(td)
    for o in sc["ops"]:
        p = os.path.join(td, o["in_name"])
        with open(p, "wb") as f:
            f.write(o["in_bytes"])
        os.chmod(p, 0o640)
        os.utime(p, ns=(1500000000123456789, 1400000000987654321))


def run_in(exe, sc, td, env, timeout=TIMEOUT):
    return core.run([exe] + sc["argv"] + [o["in_name"] for o in sc["ops"]], env=env, cwd=td, timeout=timeout)


def prepare(exe, shim, sc, base):
    """fault-free run: reference outputs + ordered call log"""
    td = os.path.join(base, "ref-" + sc["id"])
    populate(td, sc)
    log = os.path.join(base, "log-" + sc["id"])
    r = run_in(exe, sc, td, {"LD_PRELOAD": shim, "IOFAULT": "log=" + log})
    if r.rc != 0:
        raise core.HarnessError("fault-free run of %s failed: rc=%s %r" % (sc["id"], r.rc, r.err[:200]))
    for o in sc["ops"]:
        with open(os.path.join(td, o["out_name"]), "rb") as f:
            o["ref_out"] = f.read()
        if "plain" in o and o["ref_out"] != o["plain"]:
            raise core.HarnessError("fault-free decompression differs from the plaintext")
        if "plain" not in o and bz2.decompress(o["ref_out"]) != o["in_bytes"]:
            raise core.HarnessError("fault-free compression does not round-trip")
    calls = []
    with open(log) as f:
        for line in f:
            w = line.split()
            if w and w[0] in OPS:
                calls.append(w[0])
    sc["calls"] = calls
    # window per operand: after the output was created (2nd, 4th... open) and before the input unlink
    shutil.rmtree(td, ignore_errors=True)
    return sc


def items_for(scs, seed, tier):
    r = random.Random(seed)
    items = []
    for si, sc in enumerate(scs):
        cnt = {}
        opens = 0
        window = False
        for idx, op in enumerate(sc["calls"]):
            cnt[op] = cnt.get(op, 0) + 1
            k = cnt[op]
            if op == "open":
                opens += 1
                if opens % 2 == 0:
                    window = True
            inwin = window and not (op == "open")
            if op == "unlink":
                window = False
            for en in ERR_FOR[op]:
                items.append({"sc": si, "kind": "fail", "op": op, "k": k, "err": en, "win": inwin or op == "unlink"})
            for sg in SIGS:
                for when in ("b", "a"):
                    items.append({"sc": si, "kind": "sig", "op": op, "k": k, "sig": sg, "when": when,
                                  "win": inwin or (op == "open" and opens % 2 == 0 and when == "a")})
        # wall-clock signals (not reproducible to the microsecond; the oracle does not depend on where they land)
        for j in range(4 if tier == "quick" else 25):
            items.append({"sc": si, "kind": "wall", "sig": r.choice(["SIGINT", "SIGTERM", "SIGKILL"]),
                          "ms": r.choice([0, 1, 2, 3, 5, 8, 12, 20, 40]), "win": False, "op": "-", "k": j})
        items.append({"sc": si, "kind": "corrupt", "op": "-", "k": 0, "win": True})
        # legal but unusual kernel behaviour: every read()/write() is cut short (no error): the run must simply succeed
        for j in range(3 if tier == "quick" else 10):
            items.append({"sc": si, "kind": "short", "op": "-", "k": r.randrange(10**6), "win": True})
        # a real file-size limit (RLIMIT_FSIZE) that falls inside the output of the first operand: the kernel first
        # returns a short count, then fails the next write with EFBIG / SIGXFSZ
        L = len(sc["ops"][0]["ref_out"])
        for lim in sorted({0, 1, L // 2, max(0, L - 1), max(0, L - 5), max(0, L - 10), r.randrange(L + 1)}):
            if lim < L:
                items.append({"sc": si, "kind": "fsize", "op": "-", "k": lim, "win": True})
    return items


def run_item(exe, shim, sc, item, td):
    env = {"LD_PRELOAD": shim}
    if item["kind"] == "fail":
        env["IOFAULT"] = "fail=%s:%d:%d" % (item["op"], item["k"], ENO[item["err"]])
        return run_in(exe, sc, td, env)
    if item["kind"] == "sig":
        env["IOFAULT"] = "sig=%s:%d:%d:%s" % (item["op"], item["k"], SIGS[item["sig"]], item["when"])
        return run_in(exe, sc, td, env)
    if item["kind"] == "corrupt":
        return run_in(exe, sc, td, {})
    if item["kind"] == "short":
        env["IOFAULT"] = "short=%d" % item["k"]
        return run_in(exe, sc, td, env)
    if item["kind"] == "fsize":
        import resource
        lim = item["k"]
        return core.run([exe] + sc["argv"] + [o["in_name"] for o in sc["ops"]], cwd=td, timeout=TIMEOUT,
                        preexec=lambda: resource.setrlimit(resource.RLIMIT_FSIZE, (lim, lim)))
    # wall clock
    import subprocess
    e = dict(core.BASE_ENV)
    t = time.time()
    p = subprocess.Popen([exe] + sc["argv"] + [o["in_name"] for o in sc["ops"]], cwd=td, env=e,
                         stdout=subprocess.PIPE, stderr=subprocess.PIPE, start_new_session=True)
    time.sleep(item["ms"] / 1000.0)
    try:
        os.kill(p.pid, SIGS[item["sig"]])
    except ProcessLookupError:
        pass
    try:
        out, err = p.communicate(timeout=TIMEOUT)
        to = False
    except subprocess.TimeoutExpired:
        os.killpg(p.pid, signal.SIGKILL)
        out, err = p.communicate()
        to = True
    return core.Res(p.returncode, out, err, to, time.time() - t)


def read_or_none(p):
    try:
        with open(p, "rb") as f:
            return f.read()
    except FileNotFoundError:
        return None


def judge(sc, item, r, td):
    if r.timeout:
        return "HANG", []
    injected_sig = SIGS.get(item.get("sig")) if item["kind"] in ("sig", "wall") else None
    if (item["kind"] == "fail" and item["err"] == "EFBIG") or item["kind"] == "fsize":
        injected_sig = signal.SIGXFSZ
    rc = r.rc
    died = rc is not None and rc < 0
    if died and (injected_sig is None or -rc != injected_sig):
        return "killed by signal %d which was not injected" % -rc, []
    kill9 = injected_sig == signal.SIGKILL
    states = []
    expected_names = set()
    for o in sc["ops"]:
        expected_names |= {o["in_name"], o["out_name"]}
        ib = read_or_none(os.path.join(td, o["in_name"]))
        ob = read_or_none(os.path.join(td, o["out_name"]))
        in_ok = ib == o["in_bytes"]
        out_ok = ob is not None and ob == o.get("ref_out")
        if o.get("corrupted"):
            out_ok = False      # nothing counts as a complete output of a corrupt operand
        if ib is not None and not in_ok:
            return "input file %s was modified" % o["in_name"], states
        a = in_ok and ob is None
        b = out_ok and (in_ok if sc["keep"] else ib is None)
        both = in_ok and out_ok
        if kill9:
            if not (in_ok or out_ok):
                return "after SIGKILL: input %s gone/changed and no complete output (input present=%s, output %s)" % (
                    o["in_name"], ib is not None, "absent" if ob is None else "%d bytes, complete=%s" % (len(ob), out_ok)), states
            states.append("A" if a else "B" if b else "both" if both else "in+partial")
            continue
        if a:
            states.append("A")
        elif b:
            states.append("B")
        elif both and item["kind"] == "fail" and item["op"] == "unlink":
            states.append("both")
        else:
            return ("operand %s is in neither state: input %s, output %s" % (
                o["in_name"], "intact" if in_ok else "MISSING" if ib is None else "changed",
                "absent" if ob is None else ("complete" if out_ok else "PARTIAL/WRONG (%d bytes)" % len(ob)))), states
    extra = set(os.listdir(td)) - expected_names
    if extra:
        return "unexpected files left behind: %s" % sorted(extra), states
    if item["kind"] == "fsize" and states and states[0] != "A":
        return "file-size limit inside the first output, yet the operand is in state %s (status %s)" % (states[0], rc), states
    if kill9 or died:
        return None, states
    # exit status versus state
    if rc not in (0, 1, 4):
        return "exit status %s" % rc, states
    if rc == 0 and any(s != "B" for s in states):
        return "exit status 0 but an operand is not complete (%s)" % states, states
    if rc == 4 and any(s == "A" for s in states):
        # a skipped operand: only legitimate when the injected fault was an open() failure (documented skip + warning)
        if not (item["kind"] == "fail" and item["op"] == "open"):
            return "exit status 4 with an unprocessed operand (%s) although nothing made lbzip2 skip it" % states, states
    if rc == 1 and all(s == "B" for s in states):
        # everything complete yet status 1: only when the injected fault is the close() of the (read-only) input
        # descriptor, which lbzip2 performs after the operand is finished and reports truthfully
        if not (item["kind"] == "fail" and item["op"] == "close"):
            return "exit status 1 although every operand is complete", states
    if item["kind"] == "short" and (rc != 0 or any(s != "B" for s in states)):
        return "short reads/writes (no error) ended with status %s, states %s" % (rc, states), states
    if item["kind"] == "fsize" and states and states[0] != "A":
        return "file-size limit inside the first output, yet the operand is in state %s (status %s)" % (states[0], rc), states
    if rc == 1 and not r.err.strip() and not (item["kind"] == "fail" and item.get("err") == "EFBIG") \
            and item["kind"] != "fsize":
        return "exit status 1 without a diagnostic", states
    return None, states


def make_eval(exe, shim, scs, base):
    def ev(item, stats):
        sc = scs[item["sc"]]
        bad = None
        for attempt in range(3):
            td = os.path.join(base, "run-%d-%d" % (os.getpid(), random.getrandbits(40)))
            populate(td, sc)
            if item["kind"] == "corrupt":
                o = sc["ops"][-1]
                p = os.path.join(td, o["in_name"])
                if sc["mode"] == "decompress":
                    b = bytearray(o["in_bytes"])
                    b[len(b) // 2] ^= 0x10
                    with open(p, "wb") as f:
                        f.write(bytes(b))
                    os.chmod(p, 0o640)
                    o2 = dict(o, in_bytes=bytes(b), corrupted=True)
                    sc2 = dict(sc, ops=sc["ops"][:-1] + [o2])
                else:
                    sc2 = sc
            else:
                sc2 = sc
            r = run_item(exe, shim, sc2, item, td)
            if item["kind"] == "corrupt" and sc["mode"] == "compress":
                bad, states = judge(sc2, dict(item, kind="none"), r, td)
            else:
                bad, states = judge(sc2, item, r, td)
                if item["kind"] == "corrupt" and bad is None and r.rc != 1:
                    bad = "corrupt operand: exit status %s (expected 1)" % r.rc
            shutil.rmtree(td, ignore_errors=True)
            if bad != "HANG":
                break
        if bad == "HANG":
            bad = "hang: no exit within %d s in 3 consecutive runs" % TIMEOUT
        labels = [sc["mode"], "keep" if sc["keep"] else "no-keep", sc["size"], "%dop" % len(sc["ops"]),
                  item["kind"] + ":" + (item.get("err") or item.get("sig") or ""), "op=" + item["op"]]
        labels += ["state=" + "+".join(states)] if states else []
        if r.rc is not None and r.rc < 0:
            labels.append("died-by-signal")
        else:
            labels.append("exit-%s" % r.rc)
        stats.add(core.fp(sc["id"], item), bool(item["win"]), labels,
                  {"scenario": sc["id"], "fault": {k: v for k, v in item.items() if k not in ("sc",)}, "rc": r.rc,
                   "states": states})
        if bad:
            return {"scenario": sc["id"], "item": item, "what": bad, "rc": r.rc,
                    "stderr": r.err[:300].decode(errors="replace")}
        return None
    return ev


def replay_case(case):
    exe = core.build("rel")
    shim = core.tool("iofault.so")
    with core.TempDir() as base:
        scs = [prepare(exe, shim, sc, base) for sc in scenarios(case["seed"], case["tier"])]
        return make_eval(exe, shim, scs, base)(case["item"], core.Stats())


def replay_file(path):
    r = replay_case(core.load_replay(path))
    if r is not None:
        print("VIOLATION property=%s replay=%s" % (PID, path))
        core.log(r["what"])
        return 1
    return 0


def run(tier, seed):
    t0 = time.time()
    exe = core.build("rel")
    shim = core.tool("iofault.so")
    with core.TempDir() as base:
        scs = [prepare(exe, shim, sc, base) for sc in scenarios(seed, tier)]
        items = items_for(scs, seed, tier)
        stats, fails = core.pmap_cases(make_eval(exe, shim, scs, base), items)
        for f in fails:
            f["seed"], f["tier"] = seed, tier
        oc = core.conclude(PID, fails, replay_case)
    stats.extra["scenarios"] = len(scs)
    stats.extra["call-positions"] = sum(len(s["calls"]) for s in scs)
    core.write_evidence(PID, tier, seed, "fault_enumeration", stats, RULE, time.time() - t0,
                        violations=len(oc.violations), exhaustive=True,
                        assumptions=["exhaustive over the system-call positions of the listed scenarios; signals are "
                                     "delivered at call boundaries of the data path (plus a few wall-clock deliveries)",
                                     "status 4 with an untouched operand is accepted only when the injected fault is an "
                                     "open() failure (documented skip); status 1 with a complete operand only when the "
                                     "injected fault is the final close() of the input descriptor"])
    return oc.rc()
