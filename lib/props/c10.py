"""C10 — speculative block discovery never influences the output."""
import bz2
import os
import random
import time

from hypothesis import strategies as st

import bzk
import core
import corpus
import lb
from props import _dec, c11

PID = "C10"
RULE = ("case = stream(s) with the 48-bit block-header pattern planted (a) inside block headers via the symbol map "
        "(followed by junk, by a header that fails at the tables, or by a COMPLETE decodable false block expanding to "
        "2 KB-46 MB), in every block, (b) in trailing data incl. whole valid streams after non-BZh garbage, (c) at "
        "chosen distances from 256 KiB input-block edges (empty 14-byte streams as padding) and at small hook "
        "input-block sizes; valid and damaged outer streams; from two encoders (byte-aligned and bit-shifted blocks); "
        "x workers 1-16 x serialised PCT / random-walk / round-robin schedules; oracle: exit status and bytes of the "
        "sequential reference decoding (bzkit + libbz2), plus the scheduler assertions of C11; non-trivial = the event "
        "trace shows >= 1 scanner candidate the parser did not confirm; distinct by (input hash, schedule)")

EMPTY = b"BZh9" + bytes.fromhex("177245385090") + b"\0\0\0\0"
KINDS = [("junk", 60), ("junk", 200), ("hdr_error", 0), ("valid_run", 100), ("valid_run", 2000), ("valid_run", 200000),
         ("valid_run", 899995), ("magic-alphabet", 0),
         # bzgen symbol-level blocks: the pattern planted INSIDE the prefix-coded data of a block, followed by 32 bits,
         # by junk, or by a complete nested block (bit string parsed into code words of the block's own tables)
         ("sym-plant", 2), ("sym-plant", 3), ("sym-plant", 4), ("sym-plant", 0)]


def strategy(big):
    def mk():
        return st.fixed_dictionaries({
            "kind": st.integers(0, len(KINDS) - 1),
            "size": st.sampled_from([300, 3000, 99000, 250000] + ([900000] if big else [])),
            "nstreams": st.sampled_from([1, 1, 2, 5, 20]),
            "enc": st.sampled_from(["bz2-l1", "bz2-l9", "lbzip2-l1"]),
            "pad": st.one_of(st.just(None), st.just(None), st.integers(-70, 30)),   # distance of the planted magic from a 256 KiB edge
            "tail": st.sampled_from([None, None, "magic", "magic+junk", "junk-then-stream", "stream-then-magic", "BZ"]),
            "damage": st.sampled_from([None, None, None, "trunc", "crc", "flipdata"]),
            "ing": st.sampled_from([None, None, None, 4, 16, 64, 4096]),
            "n": st.sampled_from([1, 2, 2, 3, 4, 8, 16]),
            "scheds": st.lists(st.tuples(st.sampled_from(["pct", "pct", "rw", "rr", "free"]), st.integers(0, 10**6),
                                         st.integers(1, 4)).map(list), min_size=3, max_size=5),
            "seed": st.integers(0, 10**6),
        })
    return mk


def build_input(exe, case):
    r = random.Random(case["seed"])
    kind, arg = KINDS[case["kind"]]
    parts = []
    nstreams = case["nstreams"] if case["size"] <= 3000 else min(case["nstreams"], 2)
    for i in range(nstreams):
        if kind == "sym-plant":
            tape = random.Random(case["seed"] * 131 + i).randbytes(600 + case["size"] // 100)
            z, _, ginfo = bzk.gen_sym(tape, max_block=min(case["size"] * 4, 60000), sym_blocks=1 + i % 2, plant=arg)
            parts.append(z)
            continue
        if kind == "magic-alphabet":
            d = corpus.magic_plain(case["size"], case["seed"] + i, runs=bool(i % 2))
        else:
            d, _ = corpus.planted_plain(corpus.false_block(kind, arg, case["seed"] + i), case["size"], case["seed"] + i)
        if case["enc"] == "lbzip2-l1":
            z = lb.compress(exe, d, 1, False, 1).out
        else:
            z = bz2.compress(d, 1 if case["enc"] == "bz2-l1" else 9)
        parts.append(z)
    data = b"".join(parts)
    if case["pad"] is not None:
        # planted magic sits ~17 bytes into the first stream; put it at 262144 + pad
        want = 262144 + case["pad"] - 17
        k = max(0, want // 14)
        data = EMPTY * k + data
    t = case["tail"]
    magic = bytes.fromhex("314159265359")
    if t == "magic":
        data += magic + r.randbytes(4)
    elif t == "magic+junk":
        data += b"\x00" + magic * 3 + r.randbytes(300)
    elif t == "junk-then-stream":
        data += b"junk" + bz2.compress(b"hidden stream after garbage " * 40, 1)
    elif t == "stream-then-magic":
        data += bz2.compress(b"second", 9) + b"xx" + magic + r.randbytes(40)
    elif t == "BZ":
        data += b"BZ"
    dmg = case["damage"]
    if dmg == "trunc":
        data = data[:max(20, len(data) - 1 - case["seed"] % 97)]
    elif dmg == "crc":
        data = corpus.flip_bit(data, (len(data) - 3) * 8) if t is None else corpus.flip_bit(data, 8 * (len(data) // 2))
    elif dmg == "flipdata":
        data = corpus.flip_bit(data, 8 * (len(data) // 3) + case["seed"] % 8)
    return data


UNCONFIRMED = {"parser-misrecognised", "reorder-bogus", "beyond-eof", "retriever-redundant", "advance-stale",
               "retriever-late"}


def make_eval(exe):
    def ev(case, stats):
        data = build_input(exe, case)
        verdict, ref, info = _dec.reference(data)
        if verdict in ("disagree", "excluded"):
            stats.extra["oracle-disagreement-or-excluded(skipped)"] += 1
            return None
        fail = None
        with core.TempDir() as td:
            inp = os.path.join(td, "in.bz2")
            with open(inp, "wb") as f:
                f.write(data)
            tr = os.path.join(td, "trace")
            est = 1500
            for si, s in enumerate([["rr", case["seed"], 1]] + [list(x) for x in case["scheds"]]):
                if os.path.exists(tr):
                    os.unlink(tr)
                env = {"LBZIP2_VERIF_TRACE": tr}
                ss = None
                if s[0] != "free":
                    ss = "serial:%d:%s:%d:%d" % (s[1], s[0], s[2], max(50, est))
                    env["LBZIP2_VERIF_SCHED"] = ss
                if case["ing"]:
                    env["LBZIP2_VERIF_IN_GRANUL"] = str(max(case["ing"], (len(data) // 6000 + 4) // 4 * 4))
                r = core.run([exe, "-d", "-n", str(case["n"])], env=env, stdin_file=inp, timeout=120)
                labels, tinfo = c11.parse_trace(tr)
                if si == 0 and tinfo["steps"]:
                    est = tinfo["steps"]
                if r.timeout:
                    stats.inconclusive += 1
                    continue
                if verdict == "valid":
                    bad = c11.judge(r, ("bytes", ref), tinfo)
                else:
                    bad = c11.judge(r, ("rc1",), tinfo)
                    if bad is None and r.out and not ref.startswith(r.out):
                        # bytes of a block whose CRC turns out wrong may already be written (see C09)
                        _, lenient = bzk.inspect(data, lenient_crc=True)
                        if not lenient.startswith(r.out):
                            bad = "exit 1 and the bytes written are not a prefix of the sequential decoding"
                nontriv = bool(labels & UNCONFIRMED)
                lab = sorted(labels) + ["ref:" + verdict, "plant:%s" % KINDS[case["kind"]][0], "workers=%d" % case["n"],
                                        "sched=" + s[0], "enc=" + case["enc"]]
                if case["pad"] is not None:
                    lab.append("near-256KiB-edge")
                if case["tail"]:
                    lab.append("tail=" + case["tail"])
                if case["ing"]:
                    lab.append("small-input-blocks")
                stats.add(core.fp(data, ss, case["n"], case["ing"]), nontriv, lab,
                          {"case": {k: case[k] for k in ("kind", "size", "nstreams", "enc", "pad", "tail", "damage", "ing", "n")},
                           "sched": ss, "ref": verdict, "events": sorted(labels)} if nontriv else None)
                if bad:
                    fail = dict(case)
                    fail["scheds"] = [list(s)]
                    fail["est"] = est
                    fail["what"] = bad
                    break
        return fail
    return ev


def replay_case(case):
    exe = core.build("rel")
    c = dict(case)
    return make_eval(exe)(c, core.Stats())


def replay_file(path):
    r = replay_case(core.load_replay(path))
    if r is not None:
        print("VIOLATION property=%s replay=%s" % (PID, path))
        core.log(r["what"])
        return 1
    return 0


def regression_cases():
    """The fixed stale-retrieve-job defect (known_findings.json): production block sizes."""
    return [{"kind": 7, "size": 900000, "nstreams": 1, "enc": "bz2-l9", "pad": p, "tail": None, "damage": None,
             "ing": None, "n": 3, "scheds": [["rw", 19, 1], ["pct", 3, 2]], "seed": 5} for p in (-24, -32)]


def run(tier, seed):
    t0 = time.time()
    exe = core.build("rel")
    n = 330 if tier == "quick" else 5000
    ev = make_eval(exe)
    s0, f0 = core.pmap_cases(ev, regression_cases())
    stats, fails = core.hyp_search(strategy(tier != "quick"), ev, n, seed)
    stats.merge(s0)
    oc = core.conclude(PID, f0 + fails, replay_case)
    core.write_evidence(PID, tier, seed, "exploration", stats, RULE, time.time() - t0,
                        violations=len(oc.violations),
                        assumptions=["planting uses the symbol map of real encoders' output (208 controllable bits after the "
                                     "pattern); deeper plants inside Huffman-coded data come from bzgen (see C06)",
                                     "serial schedules: see C11"])
    return oc.rc()
