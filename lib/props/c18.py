"""C18 — multiple operands are processed independently.

Metamorphic: the same generated directory is processed (1) by ONE invocation with all operands and (2) by one
invocation per operand, in order, stopping after a fatal one.  The two final directory trees, the standard output
(-c) and the combined exit status must agree."""
import bz2
import os
import shutil
import stat
import time

from hypothesis import strategies as st

import core
import plain

PID = "C18"
RULE = ("sequence = 2-6 operands drawn from {compressible text, random, empty, multi-block (several 100 KB at level 1), "
        "run-heavy, already-suffixed (.bz2/.tbz: skipped when compressing), missing, hard-linked (skipped without -k), "
        "corrupt .bz2 (fatal when decompressing), operand whose output already exists (skipped), non-.bz2 name when "
        "decompressing (.out), non-bzip2 content of 17 B .. 400 KB incl. exactly 1 and 2 copy-ring slots (copied through by "
        "-dfc, a dedicated -dfc family places these between bzip2 operands)} x mode x subset of {-u, -k, -c} x workers 1/3/16 x level; oracle (metamorphic): the tree left "
        "by one invocation over all operands equals the tree left by one invocation per operand (names, bytes, permission "
        "bits, mtime, atime of outputs), -c output is the concatenation, status = 1 if a fatal operand stopped processing "
        "(earlier operands complete, later ones untouched), else 4 if any operand warned, else 0; non-trivial = >= 2 "
        "processed operands of different kinds; distinct by sequence hash")

KINDS = ["text", "random", "empty", "multi", "runs", "suffixed", "missing", "hardlink", "corrupt", "exists", "plainname",
         "tbz", "passthrough"]

# sizes of non-bzip2 operands relative to the copy ring (2 slots of 64 KiB)
PT_SIZES = [0, 10, 70000, 200000, 65536 - 17, 131072 - 17, 131072 - 16, 400000]

OPERAND = st.fixed_dictionaries({
    "kind": st.sampled_from(KINDS + ["text", "random", "multi"]),
    "seed": st.integers(0, 2**30),
    "size": st.sampled_from([1, 40, 3000, 70000]),
    "mode": st.sampled_from([0o600, 0o644, 0o640, 0o755, 0o444]),
    "mtime": st.integers(10**9, 1700000000 * 10**9),
})


TINY = st.fixed_dictionaries({
    "kind": st.sampled_from(["exists", "exists", "exists", "text", "empty", "missing", "suffixed"]),
    "seed": st.integers(0, 2**30), "size": st.sampled_from([1, 40]), "mode": st.just(0o644),
    "mtime": st.integers(10**9, 1700000000 * 10**9),
})


def strategy():
    usual = st.fixed_dictionaries({
        "ops": st.lists(OPERAND, min_size=2, max_size=6),
        "decompress": st.booleans(),
        "u": st.booleans(), "k": st.booleans(), "c": st.sampled_from([False, False, True]),
        "f": st.sampled_from([False, False, False, True]),
        "n": st.sampled_from([1, 3, 16]),
        "level": st.sampled_from([1, 1, 2, 9]),
        "nofile": st.just(0),
    })
    # long operand lists under a small descriptor limit: whatever an operand leaves open adds up
    many = st.fixed_dictionaries({
        "ops": st.lists(TINY, min_size=14, max_size=24),
        "decompress": st.booleans(),
        "u": st.just(False), "k": st.booleans(), "c": st.just(False), "f": st.just(False),
        "n": st.sampled_from([1, 2]),
        "level": st.just(1),
        "nofile": st.sampled_from([12, 16]),
    })
    # -d -c -f lists where non-bzip2 operands (copied through) sit between bzip2 operands: the copy loop and the
    # decompressor share reader state (eof, slot counts) that must be re-initialised per operand
    PT = st.fixed_dictionaries({
        "kind": st.sampled_from(["passthrough", "passthrough", "text", "multi", "empty", "plainname", "corrupt"]),
        "seed": st.integers(0, 2**30), "size": st.sampled_from([1, 40, 3000, 70000]),
        "mode": st.sampled_from([0o600, 0o644]), "mtime": st.integers(10**9, 1700000000 * 10**9),
    })
    dfc = st.fixed_dictionaries({
        "ops": st.lists(PT, min_size=2, max_size=5),
        "decompress": st.just(True), "u": st.just(False), "k": st.booleans(), "c": st.just(True), "f": st.just(True),
        "n": st.sampled_from([1, 3, 16]), "level": st.just(1), "nofile": st.just(0),
    })

    def steer(c):
        # a non-bzip2 operand is only copied through with -d -c -f: make that combination common when one is present
        if any(o["kind"] == "passthrough" for o in c["ops"]) and c["ops"][0]["seed"] % 4:
            c = dict(c, decompress=True, c=True, f=True)
        return c
    return st.one_of(usual, usual, usual, usual, usual, usual, usual, dfc, dfc, many).map(steer)


def content_for(o, decompress):
    k, sd, sz = o["kind"], o["seed"], o["size"]
    if k == "passthrough":
        import random
        return b"not a bzip2 file " + random.Random(sd).randbytes(PT_SIZES[sd % len(PT_SIZES)])
    if k in ("text", "suffixed", "hardlink", "exists", "plainname", "tbz", "corrupt", "missing"):
        d = plain.seg_bytes(("text", sz // 5 + 1, sd))[:sz]
    elif k == "random":
        import random
        d = random.Random(sd).randbytes(sz)
    elif k == "empty":
        d = b""
    elif k == "multi":
        d = plain.seg_bytes(("text", 30000, sd)) + plain.seg_bytes(("rand", 120000, sd))
    else:
        d = plain.seg_bytes(("runs", 1 + sz // 60, 20, 4, sd))
    return d


def build(td, c):
    """Creates the directory; returns [(operand name, plaintext)]"""
    names = []
    for i, o in enumerate(c["ops"]):
        d = content_for(o, c["decompress"])
        k = o["kind"]
        base = "op%d" % i
        if c["decompress"]:
            name = base + (".tbz" if k == "tbz" else "" if k == "plainname" else ".bz2")
            z = bz2.compress(d, 1 + o["seed"] % 9)
            if k == "multi":
                z = b"".join(bz2.compress(d[j:j + 40000], 1) for j in range(0, len(d), 40000))
            if k == "empty":
                z = bz2.compress(b"")
            if k == "corrupt":
                b = bytearray(z)
                b[len(b) // 2] ^= 0x04
                z = bytes(b)
            if k == "passthrough":
                z = d          # not bzip2 at all: copied unchanged by -dfc, fatal otherwise
            content = z
            outn = base + (".tar" if k == "tbz" else ".out" if k == "plainname" else "")
        else:
            name = base + (".bz2" if k == "suffixed" else ".tbz" if k == "tbz" else ".dat")
            content = d
            outn = name + ".bz2"
        p = os.path.join(td, name)
        if k != "missing":
            with open(p, "wb") as f:
                f.write(content)
            os.chmod(p, o["mode"])
            os.utime(p, ns=(o["mtime"] - 1000, o["mtime"]))
            if k == "hardlink":
                os.link(p, os.path.join(td, "other-" + name))
            if k == "exists":
                with open(os.path.join(td, outn), "wb") as f:
                    f.write(b"already here")
                os.utime(os.path.join(td, outn), ns=(10**17, 10**17))
        names.append(name)
    return names


def snapshot(td):
    snap = {}
    for n in sorted(os.listdir(td)):
        p = os.path.join(td, n)
        s = os.lstat(p)
        with open(p, "rb") as f:
            b = f.read()
        snap[n] = (stat.S_IMODE(s.st_mode), s.st_mtime_ns, s.st_nlink, b)
    return snap


def flags(c):
    a = ["-d" if c["decompress"] else "-z", "-n", str(c["n"])]
    if not c["decompress"]:
        a.append("-%d" % c["level"])
        if c["u"]:
            a.append("-u")
    if c["k"]:
        a.append("-k")
    if c["c"]:
        a.append("-c")
    if c.get("f"):
        a.append("-f")
    return a


def _limit(c):
    if not c.get("nofile"):
        return None
    import resource
    n = c["nofile"]
    return lambda: resource.setrlimit(resource.RLIMIT_NOFILE, (n, n))


def make_eval(exe):
    def ev(case, stats):
        c = case
        with core.TempDir() as base:
            d1, d2 = os.path.join(base, "all"), os.path.join(base, "single")
            os.mkdir(d1)
            names = build(d1, c)
            shutil.copytree(d1, d2, symlinks=True, copy_function=shutil.copy2)
            # hard links are not preserved by copytree: rebuild the second tree from scratch instead
            shutil.rmtree(d2)
            os.mkdir(d2)
            build(d2, c)
            r1 = core.run([exe] + flags(c) + ["--"] + names, cwd=d1, timeout=180, preexec=_limit(c))
            outs, rcs, errs = [], [], []
            for nme in names:
                r = core.run([exe] + flags(c) + ["--", nme], cwd=d2, timeout=180, preexec=_limit(c))
                outs.append(r.out)
                rcs.append(r.rc)
                errs.append(r.err)
                if r.rc == 1 or r.timeout:
                    break
            bad = None
            if r1.timeout or any(x is None for x in rcs):
                stats.inconclusive += 1
                return None
            want = 1 if 1 in rcs else 4 if 4 in rcs else 0
            if any(x not in (0, 1, 4) for x in rcs):
                bad = "single-operand run ended with status %s" % rcs
            elif r1.rc != want:
                bad = "combined status %s, single runs gave %s (expected %d)" % (r1.rc, rcs, want)
            elif r1.out != b"".join(outs):
                bad = "-c output of the combined run differs from the concatenation of the single runs (%d vs %d bytes)" % (
                    len(r1.out), sum(map(len, outs)))
            elif bool(r1.err.strip()) != any(e.strip() for e in errs):
                bad = "combined run stderr %r, single runs %r" % (r1.err[:200], [e[:80] for e in errs])
            else:
                s1, s2 = snapshot(d1), snapshot(d2)
                if set(s1) != set(s2):
                    bad = "trees differ: only combined %s, only single %s" % (sorted(set(s1) - set(s2)), sorted(set(s2) - set(s1)))
                else:
                    for n_ in s1:
                        a, b = s1[n_], s2[n_]
                        if a[3] != b[3]:
                            bad = "file %s differs in content (%d vs %d bytes)" % (n_, len(a[3]), len(b[3]))
                        elif a[:3] != b[:3]:
                            bad = "file %s differs in mode/mtime/links: %s vs %s" % (n_, a[:3], b[:3])
                        if bad:
                            break
        processed = [o["kind"] for o, rc in zip(c["ops"], rcs) if rc == 0]
        nontriv = len(set(processed)) >= 2
        labels = ["decompress" if c["decompress"] else "compress", "workers=%d" % c["n"], "status=%d" % want]
        labels += ["-" + f for f in "ukcf" if c.get(f)] + sorted({"kind=" + o["kind"] for o in c["ops"]})
        if c["decompress"] and c["c"] and c.get("f"):
            for i, o in enumerate(c["ops"][:len(rcs)]):
                if o["kind"] == "passthrough" and i > 0:
                    labels.append("copied-through operand after another operand")
                    if PT_SIZES[o["seed"] % len(PT_SIZES)] + 17 > 131072:
                        labels.append("copied-through operand after another operand, larger than the copy ring")
        if c.get("nofile"):
            labels.append("long-list-under-small-descriptor-limit")
        if 1 in rcs:
            labels.append("fatal-operand-stops-run")
        stats.add(core.fp(c), nontriv, labels,
                  {"kinds": [o["kind"] for o in c["ops"]], "decompress": c["decompress"],
                   "flags": [f for f in "ukcf" if c.get(f)], "operands": len(c["ops"]), "n": c["n"], "single_statuses": rcs, "combined": r1.rc})
        if bad:
            f = dict(case)
            f["what"] = bad
            return f
        return None
    return ev


def replay_case(case):
    exe = core.build("rel")
    c = {k: v for k, v in case.items() if k != "what"}
    return make_eval(exe)(c, core.Stats())


def replay_file(path):
    r = replay_case(core.load_replay(path))
    if r is not None:
        print("VIOLATION property=%s replay=%s" % (PID, path))
        core.log(r["what"])
        return 1
    return 0


def run(tier, seed):
    t0 = time.time()
    exe = core.build("rel")
    n = 320 if tier == "quick" else 6000
    stats, fails = core.hyp_search(strategy, make_eval(exe), n, seed)
    oc = core.conclude(PID, fails, replay_case)
    core.write_evidence(PID, tier, seed, "exploration", stats, RULE, time.time() - t0, violations=len(oc.violations),
                        assumptions=["compression is deterministic across invocations (C03)",
                                     "diagnostic wording is not compared, only whether anything was printed"])
    return oc.rc()
