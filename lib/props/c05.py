"""C05 — decompression never accepts malformed data or emits wrong bytes."""
import time

import core
import corpus
import lb
import mutate
from props import _dec

PID = "C05"
RULE = ("case = valid file (lbzip2 / bzip2 / repo samples / bzgen tapes) with 1-3 field-aware or byte-level mutations "
        "(incl. truncation, trailing near-miss headers, boundary values of table/selector counts and primary index, "
        "re-sealed CRCs after damage) or a choice-tape stream with catalogue defects, x workers x schedules x input "
        "block sizes; oracle: exit status 0 implies bzkit AND libbz2 call the input valid and stdout equals the "
        "reference decoding; non-trivial = input begins with a full stream header and contains >= 1 complete block "
        "header; distinct by input hash")


def eval_bytes(exe, data, case, stats, tags=(), origin="mut"):
    verdict, ref, info = _dec.reference(data)
    if verdict == "disagree":
        stats.extra["oracle-disagreement(skipped)"] += 1
        return None
    r = _dec.run_lbzip2(exe, data, case)
    if r.timeout:
        stats.inconclusive += 1
        return None
    nblocks = sum(len(s["blocks"]) for s in info["streams"])
    nontriv = len(data) >= 4 and data[:3] == b"BZh" and 0x31 <= data[3] <= 0x39 and nblocks >= 1
    labels = [origin, "ref:" + verdict, "lbzip2-rc=%s" % r.rc, "workers=%s" % case.get("n")]
    labels += ["mut:" + t for t in set(tags)]
    if verdict != "valid":
        labels.append("reason:" + info["reason"][:40])
    if case.get("sched"):
        labels.append("serial-schedule")
    bad = None
    if r.rc == 0:
        if verdict == "invalid" or (verdict == "excluded" and not info["valid"]):
            bad = "accepted (exit 0) an input the strict reference rejects: %s (bit %d)" % (info["reason"], info["err_bit"])
        elif r.out != ref:
            bad = "exit 0 but output differs from the reference decoding (%d vs %d bytes)" % (len(r.out), len(ref))
    stats.add(core.fp(data), nontriv, labels,
              {"origin": origin, "tags": sorted(set(tags)), "len": len(data), "ref": verdict,
               "reason": info["reason"], "rc": r.rc} if nontriv else None)
    if bad:
        return {"data_hex": data.hex(), "n": case.get("n"), "sched": case.get("sched"), "ing": case.get("ing"),
                "what": bad, "reason": info["reason"], "tags": sorted(set(tags))}
    return None


def make_hyp_eval(exe, files):
    def ev(case, stats):
        f = files[case["file"] % len(files)]
        data, tags = mutate.apply(f, case["ops"])
        return eval_bytes(exe, data, case, stats, tags)
    return ev


def keys_of(f):
    ks = set()
    r = f.get("reason", "")
    if "code length step outside 1..20" in r:
        ks.add("delta-excursion")
    return ks


def replay_case(case):
    if case.get("inproc"):
        from props import _inproc
        return _inproc.replay(case)
    exe = core.build("rel")
    return eval_bytes(exe, bytes.fromhex(case["data_hex"]), case, core.Stats(), case.get("tags", ()), "replay")


def replay_file(path):
    r = replay_case(core.load_replay(path))
    if r is not None:
        k = core.known_match(PID, keys_of(r))
        if k:
            print("KNOWN-FINDING: property=%s %s" % (PID, k.get("what")))
            return 0
        print("VIOLATION property=%s replay=%s" % (PID, path))
        core.log(r["what"])
        return 1
    return 0


def run(tier, seed):
    t0 = time.time()
    exe = core.build("rel")
    files = corpus.build(exe, seed, 10 if tier == "quick" else 60)
    files += _dec.tiny_files(exe, seed, 6 if tier == "quick" else 30)
    n = 1500 if tier == "quick" else 25000
    stats, fails = core.hyp_search(lambda: _dec.case_strategy(len(files)), make_hyp_eval(exe, files), n, seed)
    # regression tier: the saved inputs of repaired findings (seconds)
    import glob
    import os
    reg = sorted(glob.glob(os.path.join(core.ROOT, "seeded", "F02-delta-excursion", "*.bz2")))

    def reg_eval(path, st_):
        with open(path, "rb") as fh:
            return eval_bytes(exe, fh.read(), {"n": 2, "sched": None, "ing": None}, st_, ["regression:" + os.path.basename(path)],
                              "regression")
    s0, f0 = core.pmap_cases(reg_eval, reg)
    stats.merge(s0)
    fails += f0
    from props import _gen
    s2, f2 = _gen.run_c05(exe, tier, seed, eval_bytes)
    stats.merge(s2)
    fails += f2
    # in-process differential (parse/retrieve/decode/emit driven as expand.c drives them, against bzkit): catalogue
    # defects and structure-aware raw bytes under rapidcheck; a coverage-guided libFuzzer campaign in the thorough tier
    from props import _inproc
    _inproc.add(stats, fails, "decode_defect", seed + 1, 2500 if tier == "quick" else 60000)
    _inproc.add(stats, fails, "decode_raw", seed + 1, 30000 if tier == "quick" else 1500000)
    _inproc.add(stats, fails, "decode_sym", seed + 1, 4000 if tier == "quick" else 200000)
    if tier != "quick":
        fz = _inproc.fuzz("decode_raw", seed, runs=20000000, max_total_time=400)
        stats.extra["libfuzzer-execs"] += fz["execs"]
        stats.extra["libfuzzer-corpus"] += fz.get("corpus", 0)
        fails += fz["crashes"]
    oc = core.conclude(PID, fails, replay_case, keys_of)
    core.write_evidence(PID, tier, seed, "exploration", stats, RULE, time.time() - t0,
                        violations=len(oc.violations),
                        assumptions=["bzkit (strict rules) and libbz2 must agree on a candidate, otherwise it is skipped and counted"])
    return oc.rc()
