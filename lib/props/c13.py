"""C13 — peak memory is bounded by the worker count.

Runs of growing size (S, 4S, 16S) at several worker counts with a consumer that does not read standard output for a
while (so that every output slot, work unit and input slot fills up -- the designed worst case) and then drains it.
Peak resident set size (ru_maxrss from wait4) must stay under a fixed linear function of the worker count and must
not grow with the size."""
import bz2
import os
import random
import subprocess
import threading
import time

import core
import corpus
import plain

PID = "C13"
RULE = ("case = (family, direction, workers 1/2/4/8, two sizes: ~3x and ~12x the capacity of all I/O slots of that worker "
        "count); families: zero bombs (bz2 of 32-512 MB of "
        "zeros), run bombs (blocks of 900000 run-length bytes expanding 51x), incompressible data, text, thousands of "
        "minimal streams each carrying a spurious block-header candidate, streams with a planted complete false block; "
        "standard output is a pipe that is not read for 1 s and then drained; oracle: ru_maxrss <= A + B*workers with fixed "
        "A, B (compress 24 MB + 20 MB*n; decompress 24 MB + 36 MB*n: 1.5 x the sum of the slot and per-worker buffers in "
        "process.c / expand.c / encode.c), and whenever RSS grows by more than max(25 %, 12 MB) from the 1x to the 4x size a 16x run must still be under the bound (a leak keeps growing, allocator slack does not); non-trivial = every case (both sizes exceed the slot "
        "capacity by construction); distinct by (family, size, n, direction)")
MB = 1 << 20
A_KB = 24 * 1024
B_KB = {"compress": 20 * 1024, "decompress": 36 * 1024}


def make_input(fam, n, big, seed):
    """Returns (argv_tail, input bytes).  Sizes are relative to the slot capacity of an n-worker run: the small size
    is ~3x what all slots hold together (so the run is saturated), the big one 4x that."""
    r = random.Random(seed)
    mult = 4 if big else 1
    out_cap = 16 * n * 900000            # decompression: output slots
    if fam == "zero-bomb":
        k = max(1, 3 * out_cap * mult // (8 * MB))
        return ["-d"], bz2.compress(bytes(8 * MB), 9) * k
    if fam == "run-bomb":
        # 255-byte runs: 5 bytes each after the initial RLE -> one 900000-byte block decodes to ~46 MB
        one = bz2.compress(b"".join(bytes([65 + (i % 7)]) * 255 for i in range(64 * 1024)), 9)  # 16 MB
        return ["-d"], one * max(1, 3 * out_cap * mult // (16 * MB))
    if fam == "random-d":
        one = bz2.compress(r.randbytes(2 * MB), 9)
        return ["-d"], one * max(1, 3 * out_cap * mult // (2 * MB))
    if fam == "dense-candidates":
        z = bz2.compress(b"BCGIOQSTWZ]^acfgiklo", 9)
        return ["-d"], z * (3000 * n * mult)
    if fam == "false-blocks":
        d, _ = corpus.planted_plain(corpus.false_block("valid_run", 200000, seed), 60000, seed)
        z = bz2.compress(d, 1)
        return ["-d"], z * (40 * n * mult)
    in_cap = 2 * n * 900000              # compression: input slots
    if fam == "random-c":
        return ["-z", "-9"], r.randbytes(3 * in_cap * mult)
    if fam == "text-c":
        t = plain.seg_bytes(("text", 200000, seed))
        sz = 3 * in_cap * mult
        return ["-z", "-9"], (t * (1 + sz // len(t)))[:sz]
    if fam == "text-c1":
        t = plain.seg_bytes(("text", 200000, seed))
        sz = 3 * 2 * n * 100000 * mult * 4
        return ["-z", "-1", "-u"], (t * (1 + sz // len(t)))[:sz]
    raise ValueError(fam)


def measure(exe, argv, inp_path, stall=1.0, timeout=600):
    """Returns (rc, maxrss_kb, out_bytes, timed_out)."""
    env = dict(core.BASE_ENV)
    fin = open(inp_path, "rb")
    # ru_maxrss of a fork()ed child starts at the parent's resident size (the harness holds the whole input), so the
    # program is started by /usr/bin/time, a tiny process that forks, execs and reports the child's own peak
    rep = inp_path + ".rss"
    p = subprocess.Popen(["/usr/bin/time", "-o", rep, "-f", "%M %x", exe] + argv, stdin=fin, stdout=subprocess.PIPE,
                         stderr=subprocess.PIPE, env=env, start_new_session=True)
    fin.close()
    nout = [0]

    def drain():
        time.sleep(stall)
        while True:
            b = p.stdout.read(1 << 20)
            if not b:
                break
            nout[0] += len(b)
    errb = []
    th = threading.Thread(target=drain, daemon=True)
    te = threading.Thread(target=lambda: errb.append(p.stderr.read()), daemon=True)
    th.start()
    te.start()
    t0 = time.time()
    timed = False
    while True:
        pid, status, ru = os.wait4(p.pid, os.WNOHANG)
        if pid:
            break
        if time.time() - t0 > timeout:
            timed = True
            try:
                os.killpg(p.pid, 9)
            except ProcessLookupError:
                pass
            pid, status, ru = os.wait4(p.pid, 0)
            break
        time.sleep(0.02)
    th.join(timeout=30)
    te.join(timeout=5)
    rc = os.waitstatus_to_exitcode(status)
    p.returncode = rc
    kb = 0
    try:
        with open(rep) as f:
            last = f.read().strip().splitlines()[-1].split()
        kb = int(last[0])
        os.unlink(rep)
    except (OSError, ValueError, IndexError):
        if not timed:
            raise core.HarnessError("no memory report from /usr/bin/time")
    return rc, kb, nout[0], timed, (errb[0] if errb else b"")


def cases(seed, tier):
    fams = ["zero-bomb", "run-bomb", "random-d", "dense-candidates", "false-blocks", "random-c", "text-c", "text-c1"]
    ns = [1, 2, 4, 8]
    out = []
    k = 0
    for fam in fams:
        for n in (ns if tier != "quick" else [ns[(k + seed) % 4], ns[(k + seed + 2) % 4], 8]):
            out.append({"fam": fam, "n": n, "seed": seed + k})
        k += 1
    return out


def make_eval(exe, base):
    def ev(case, stats):
        fam, n = case["fam"], case["n"]
        rss = {}
        bad = None
        for big in (False, True):
            argv, data = make_input(fam, n, big, case["seed"])
            direction = "decompress" if argv[0] == "-d" else "compress"
            path = os.path.join(base, "in-%d-%s-%d-%d" % (os.getpid(), fam, n, big))
            with open(path, "wb") as f:
                f.write(data)
            ln = len(data)
            del data
            rc, kb, nout, timed, err = measure(exe, argv + ["-n", str(n)], path)
            os.unlink(path)
            if timed:
                stats.inconclusive += 1
                return None
            rss["big" if big else "sat"] = kb
            limit = A_KB + B_KB[direction] * n
            stats.add(core.fp(fam, n, big), True,
                      [fam, direction, "workers=%d" % n, "size=4x" if big else "size=1x", "rss<=%dMB" % (((kb >> 10) // 32 + 1) * 32)],
                      {"family": fam, "workers": n, "size": "4x" if big else "1x", "input_bytes": ln, "output_bytes": nout,
                       "maxrss_kb": kb, "limit_kb": limit})
            if rc != 0:
                bad = "exit status %s: %r" % (rc, err[:200])
                break
            if kb > limit:
                bad = "%s, %d workers, input %d bytes: peak RSS %d KB exceeds the bound %d KB" % (fam, n, ln, kb, limit)
                break
        if not bad and len(rss) == 2 and rss["big"] - rss["sat"] > max(rss["sat"] // 4, 12 * 1024):
            # It grew between two sizes that both exceed the slot capacity.  Allocator arenas that are not returned to
            # the system explain some growth, and single measurements vary; a leak keeps growing in proportion to the
            # size.  Decide with a 16x run against the fixed bound.
            argv, data = make_input(fam, n, True, case["seed"])
            data = data * 4
            path = os.path.join(base, "in-%d-%s-%d-huge" % (os.getpid(), fam, n))
            with open(path, "wb") as f:
                f.write(data)
            ln = len(data)
            del data
            rc, kb, nout, timed, err = measure(exe, argv + ["-n", str(n)], path, timeout=1200)
            os.unlink(path)
            rss["huge"] = kb
            stats.add(core.fp(fam, n, "huge"), True, [fam, "size=16x(growth re-check)", "workers=%d" % n],
                      {"family": fam, "workers": n, "size": "16x", "input_bytes": ln, "output_bytes": nout, "maxrss_kb": kb})
            limit = A_KB + B_KB["decompress" if argv[0] == "-d" else "compress"] * n
            if timed:
                stats.inconclusive += 1
            elif kb > limit:
                bad = "%s, %d workers: peak RSS keeps growing with the size (%d -> %d -> %d KB for 1x/4x/16x) and exceeds the bound %d KB" % (
                    fam, n, rss["sat"], rss["big"], kb, limit)
        if bad:
            return dict(case, what=bad, rss=rss)
        return None
    return ev


def replay_case(case):
    exe = core.build("rel")
    with core.TempDir() as base:
        c = {k: v for k, v in case.items() if k not in ("what", "rss")}
        return make_eval(exe, base)(c, core.Stats())


def replay_file(path):
    r = replay_case(core.load_replay(path))
    if r is not None:
        print("VIOLATION property=%s replay=%s" % (PID, path))
        core.log(r["what"])
        return 1
    return 0


def run(tier, seed):
    t0 = time.time()
    exe = core.build("rel")
    with core.TempDir() as base:
        # memory measurements disturb each other less when few run at once
        stats, fails = core.pmap_cases(make_eval(exe, base), cases(seed, tier), nproc=4)
        oc = core.conclude(PID, fails, replay_case, confirm_runs=2)
    core.write_evidence(PID, tier, seed, "exploration", stats, RULE, time.time() - t0, violations=len(oc.violations),
                        assumptions=["measured on this allocator and kernel (glibc malloc, ru_maxrss); the bound is 1.5 x the "
                                     "buffer budget derived from the slot constants, fixed in the check's source",
                                     "hook variant (rel) with pass-through thread primitives"])
    return oc.rc()
