"""C20 — prefix tables are optimal for the symbols they code (stream level)."""
import time

from hypothesis import strategies as st

import core
import lb
import plain
from props import _enc

PID = "C20"
RULE = ("case = compressed stream of a generated plaintext (all families plus geometric/Fibonacci-weighted ones that "
        "push plain Huffman depth towards and beyond 20, and 300-890 KB low-entropy blocks over 2-5 letters in which one "
        "table codes a symbol >= 65536 times); every table used by >= 1 group of every block is compared "
        "with an independent package-merge optimum for the symbol counts coded with it under the table's own maximum "
        "length; non-trivial = table with >= 3 distinct code lengths; distinct by (frequency vector hash)")


def ll_opt_cost(w, L):
    """Minimum of sum(w_i * l_i) over prefix codes on len(w) symbols (every
    symbol gets a code) with all l_i <= L.  Package-merge, cost only."""
    n = len(w)
    assert n >= 2 and (1 << L) >= n
    leaves = sorted(w)
    prev = list(leaves)
    for _ in range(L - 1):
        pk = [prev[i] + prev[i + 1] for i in range(0, len(prev) - 1, 2)]
        prev = sorted(leaves + pk)
    return sum(prev[:2 * n - 2])


def brute_opt_cost(w, L):
    """Exhaustive optimum over all Kraft-feasible length multisets (tiny n), for validating ll_opt_cost."""
    n = len(w)
    ws = sorted(w, reverse=True)
    best = [None]

    def rec(i, minlen, kraft, cost):
        # lengths non-decreasing with decreasing weight
        if best[0] is not None and cost >= best[0]:
            return
        if i == n:
            if kraft <= (1 << L):
                best[0] = cost
            return
        for l in range(minlen, L + 1):
            k = kraft + (1 << (L - l))
            if k > (1 << L):
                continue
            rec(i + 1, l, k, cost + ws[i] * l)
    rec(0, 1, 0, 0)
    return best[0]


def selftest():
    import random
    r = random.Random(5)
    for _ in range(300):
        n = r.randrange(2, 8)
        L = r.randrange(max(1, (n - 1).bit_length()), 7)
        w = [r.choice([0, 0, 1, 1, 2, 3, 5, 8, 13, 100, 1000]) for _ in range(n)]
        a, b = ll_opt_cost(w, L), brute_opt_cost(w, L)
        if a != b:
            raise core.HarnessError("package-merge oracle disagrees with brute force: %r L=%d %d %d" % (w, L, a, b))


def fibdata(k, scale, seed):
    """Bytes whose value frequencies follow Fibonacci numbers (deep Huffman trees)."""
    import random
    f = [1, 1]
    while len(f) < k:
        f.append(f[-1] + f[-2])
    out = bytearray()
    for v, c in enumerate(f):
        out += bytes([v + 40]) * (c * scale)
    b = list(out)
    random.Random(seed).shuffle(b)
    return bytes(b)


def strategy(mt):
    fibcase = st.tuples(st.integers(8, 27), st.integers(1, 3), st.integers(0, 10**6), st.integers(1, 9)).map(
        lambda t: {"segs": [["lit", ""]], "fib": [t[0], t[1], t[2]], "level": t[3], "seq": False, "n": 2, "sched": None})
    # large low-entropy blocks: one table codes the same symbol >= 2^16 times (counts that no longer fit 16 bits)
    heavy = st.tuples(st.integers(2, 5), st.sampled_from([300000, 520000, 700000, 890000]), st.integers(0, 10**6),
                      st.sampled_from([5, 7, 9, 9]), st.sampled_from([1, 1, 3, 9])).map(
        lambda t: {"segs": [["lit", ""]], "heavy": list(t[:3]) + [t[4]], "level": t[3], "seq": False, "n": 4, "sched": None})
    return st.one_of(_enc.case_strategy(mt, boundary_weight=0), _enc.case_strategy(mt, boundary_weight=0), fibcase,
                     _enc.case_strategy(mt, boundary_weight=0), _enc.case_strategy(mt, boundary_weight=0), fibcase, heavy)


def make_eval(exe):
    def ev(case, stats):
        c = dict(case)
        if case.get("fib"):
            k, scale, sd = case["fib"]
            if k > 24:
                scale = 1
            c["segs"] = [["lit", fibdata(k, scale, sd).hex()]]
        if case.get("heavy"):
            import random
            k, size, sd, skew = case["heavy"]
            rr = random.Random(sd)
            c["segs"] = [["lit", bytes(rr.choices(range(97, 97 + k), weights=[skew ** i for i in range(k)], k=size)).hex()]]
        data, r, info, out = _enc.compress_and_inspect(exe, c, lens=True, freq=True)
        if r.timeout:
            stats.inconclusive += 1
            return None
        bad = None
        if info is None:
            bad = "compressor failed rc=%s err=%r" % (r.rc, r.err[:200])
        elif not info["valid"]:
            bad = "stream invalid: " + info["reason"]
        else:
            for bi, b in enumerate(_enc.blocks_of(info)):
                for ti, t in enumerate(b["tables"]):
                    if not t["used"]:
                        continue
                    lens, freq = t["len"], t["freq"]
                    L = max(lens)
                    cost = sum(f * l for f, l in zip(freq, lens))
                    opt = ll_opt_cost(freq, L)
                    nd = len(set(lens))
                    labels = ["alpha<=16" if len(lens) <= 16 else "alpha<=64" if len(lens) <= 64 else "alpha>64",
                              "maxlen=%d" % L if L >= 15 else "maxlen<15"]
                    # would unrestricted Huffman exceed 20?
                    if L == 20 and ll_opt_cost(freq, 30 if len(lens) < 2**20 else 30) < cost:
                        labels.append("length-limit-binds(package-merge decides)")
                    if 0 in freq:
                        labels.append("zero-frequency-symbols")
                    if max(freq) >= 65536:
                        labels.append("symbol coded >= 65536 times by one table")
                    stats.add(core.fp(freq, L), nd >= 3, labels,
                              {"block": bi, "table": ti, "alpha": len(lens), "maxlen": L, "cost": cost, "opt": opt,
                               "nsyms": sum(freq)} if nd >= 3 else None)
                    if max(lens) > 20 or min(lens) < 1:
                        bad = "block %d table %d has a code length outside 1..20" % (bi, ti)
                    elif t["kraft"] != (1 << 20):
                        bad = "block %d table %d is not complete" % (bi, ti)
                    elif cost != opt:
                        bad = "block %d table %d: coded length %d bits, optimum with max length %d is %d" % (
                            bi, ti, cost, L, opt)
                    if bad:
                        break
                if bad:
                    break
        if bad:
            f = dict(case)
            f["what"] = bad
            return f
        return None
    return ev


def replay_case(case):
    if case.get("inproc"):
        from props import _inproc
        return _inproc.replay(case)
    return make_eval(core.build("rel"))(case, core.Stats())


def replay_file(path):
    r = replay_case(core.load_replay(path))
    if r is not None:
        print("VIOLATION property=%s replay=%s" % (PID, path))
        core.log(r["what"])
        return 1
    return 0


def run(tier, seed):
    t0 = time.time()
    selftest()
    exe = core.build("rel")
    n, mt = (700, 300000) if tier == "quick" else (9000, 2000000)
    stats, fails = core.hyp_search(lambda: strategy(mt), make_eval(exe), n, seed)
    extra = {}
    # in-process: generate_prefix_code() on synthetic symbol arrays (alphabets 3-258, uniform / geometric / Fibonacci /
    # sparse weights, 1-6 tables) against a package-merge optimum in C++ (self-tested against brute force)
    from props import _inproc
    _inproc.add(stats, fails, "prefix", seed, 3500 if tier == "quick" else 60000)
    oc = core.conclude(PID, fails, replay_case)
    core.write_evidence(PID, tier, seed, "exploration", stats, RULE, time.time() - t0,
                        violations=len(oc.violations), extra=extra,
                        assumptions=["package-merge oracle validated against brute force for alphabets <= 7 at every run",
                                     "symbol counts per table are recovered from the stream by bzkit"])
    return oc.rc()
