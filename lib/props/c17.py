"""C17 — FILE operands follow the documented naming and safety rules.

Hypothesis generates a directory scenario (operands of several types, suffixes, modes, timestamps, pre-existing output
files) and a flag set; an executable model written from the man page (OPTIONS -k -c -t -f, OPERANDS, EXIT STATUS)
predicts, per operand, whether it is skipped with a warning or processed, the output name, metadata and whether the
input stays.  The real run must leave exactly the predicted directory."""
import bz2
import os
import random
import stat
import time

from hypothesis import strategies as st

import core
import plain

PID = "C17"
RULE = ("scenario = 1-3 FILE operands in a fresh directory, each (type regular|empty|symlink|hard-linked|directory|missing, "
        "name stem + suffix from {'', .txt, .bz2, .tbz, .tbz2, .tz2, .BZ2, .tar.bz2, bare suffix names}, permission bits "
        "incl. occasional setuid/sticky, atime/mtime with nanoseconds, optional pre-existing output file with sentinel "
        "content) x mode (-z/-d) x subset of {-k, -c, -t, -f} x workers; oracle: executable model of the documented rules; "
        "compared: directory listing, output contents (decodes to the input / equals the plaintext), st_mode & 0777, "
        "atime/mtime in ns against values captured before the run, link counts, sentinel untouched (content, inode, mtime) "
        "unless -f, stdout, exit status (4 iff a warning is due, else 0), stderr empty iff no warning; non-trivial = some "
        "operand reaches output creation or a skip rule other than 'missing file'; distinct by scenario hash")

SUFFIXES = ["", ".txt", ".bz2", ".tbz", ".tbz2", ".tz2", ".BZ2", ".tar.bz2", ".bz", ".out"]
COMPR_SUF = [(".bz2", ""), (".tbz2", ".tar"), (".tbz", ".tar"), (".tz2", ".tar")]
MODES = [0o600, 0o644, 0o400, 0o755, 0o640, 0o777, 0o444, 0o660, 0o4755, 0o1644, 0o2750]


def out_name_decompress(name):
    for c, d in COMPR_SUF:
        if name.endswith(c):
            return name[:len(name) - len(c)] + d
    return name + ".out"


def has_compr_suffix(name):
    return any(name.endswith(c) for c, _ in COMPR_SUF)


OPERAND = st.fixed_dictionaries({
    "type": st.sampled_from(["regular", "regular", "regular", "regular", "empty", "symlink", "hardlink", "dir", "missing"]),
    "stem": st.sampled_from(["a", "b", "data", "x.y", "", "archive", "we ird"]),
    "suffix": st.sampled_from(SUFFIXES),
    "size": st.sampled_from([1, 7, 300, 5000, 120000]),
    "seed": st.integers(0, 2**30),
    "mode": st.sampled_from(MODES),
    "atime": st.integers(10**9, 1700000000 * 10**9),
    "mtime": st.integers(10**9, 1700000000 * 10**9),
    "existing_out": st.sampled_from([False, False, False, True]),
})


def strategy():
    return st.fixed_dictionaries({
        "ops": st.lists(OPERAND, min_size=1, max_size=3),
        "decompress": st.booleans(),
        "k": st.booleans(), "c": st.sampled_from([False, False, True]), "t": st.sampled_from([False, False, False, True]),
        "f": st.sampled_from([False, False, False, True]),
        "n": st.sampled_from([1, 2, 4]),
        "level": st.integers(1, 9),
        # standard error that cannot be written (closed, or a full device): a due warning then becomes a fatal error,
        # and a fatal error must not cost any existing file (only used with a single operand)
        "stderr": st.sampled_from(["pipe", "pipe", "pipe", "pipe", "closed", "full"]),
    })


def normalise(case):
    """Make the scenario well-defined: unique operand names, -t only when decompressing and never with -c, -f only
    with operand types whose documented behaviour the model covers, directories only where they are skipped."""
    c = dict(case)
    if c["t"]:
        c["decompress"] = True
        c["c"] = False
    ops = []
    seen = set()
    for i, o in enumerate(c["ops"]):
        o = dict(o)
        name = o["stem"] + o["suffix"]
        if name in ("", ".", ".."):
            name = "n%d" % i + o["suffix"]
        while name in seen or (name + ".bz2") in seen or out_name_decompress(name) in seen:
            name = "u%d" % i + name
        o["name"] = name
        if c["decompress"] and o["type"] == "empty":
            o["type"] = "regular"          # an empty file is not a bzip2 file: fatal error, outside this property
        if o["type"] == "dir" and (c["c"] or c["t"] or c["f"]):
            o["type"] = "regular"          # reading a directory is an I/O error, not a naming rule
        if c["f"] and o["type"] == "symlink":
            o["type"] = "regular"
        out = out_name_decompress(name) if c["decompress"] else name + ".bz2"
        o["out"] = out
        seen |= {name, out, "target_" + name}
        ops.append(o)
    c["ops"] = ops
    return c


def build_dir(td, c):
    """Create the scenario; returns per-operand facts captured BEFORE the run."""
    facts = []
    for o in c["ops"]:
        p = os.path.join(td, o["name"])
        plaintext = plain.seg_bytes(("text", o["size"] // 5 + 1, o["seed"]))[:o["size"]] if o["type"] != "empty" else b""
        content = bz2.compress(plaintext, 1 + o["seed"] % 9) if c["decompress"] else plaintext
        f = {"plain": plaintext, "content": content}
        real = p
        if o["type"] in ("regular", "empty", "hardlink", "symlink"):
            if o["type"] == "symlink":
                real = os.path.join(td, "target_" + o["name"])
            with open(real, "wb") as fh:
                fh.write(content)
            os.chmod(real, o["mode"])
            os.utime(real, ns=(o["atime"], o["mtime"]))
            if o["type"] == "symlink":
                os.symlink("target_" + o["name"], p)
            if o["type"] == "hardlink":
                os.link(p, os.path.join(td, "link_" + o["name"]))
                os.utime(real, ns=(o["atime"], o["mtime"]))
        elif o["type"] == "dir":
            os.mkdir(p)
        if o["existing_out"] and o["out"] and not os.path.lexists(os.path.join(td, o["out"])):
            sp = os.path.join(td, o["out"])
            with open(sp, "wb") as fh:
                fh.write(b"SENTINEL " + o["name"].encode())
            os.utime(sp, ns=(123456789012345678, 987654321098765432 // 10))
            s = os.stat(sp)
            f["sentinel"] = (s.st_ino, s.st_mtime_ns, s.st_size)
        if o["type"] in ("regular", "empty", "hardlink", "symlink"):
            s = os.stat(real)
            f["st"] = (s.st_mode, s.st_atime_ns, s.st_mtime_ns, s.st_nlink, s.st_ino)
        facts.append(f)
    return facts


def model(c, facts):
    """Per operand: dict(action=skip|process, warn=bool, out=name|None, input_stays=bool, overwrite=bool)."""
    res = []
    regf = not c["c"] and not c["t"]
    keep = c["k"] or c["c"] or c["t"]
    for o, f in zip(c["ops"], facts):
        r = {"action": "process", "warn": False, "out": None, "input_stays": True, "why": ""}
        ty = o["type"]
        if ty == "missing":
            r.update(action="skip", warn=True, why="missing")
        elif not c["f"] and regf and ty in ("symlink", "dir"):
            r.update(action="skip", warn=True, why="not a regular file")
        elif not c["f"] and regf and not keep and ty == "hardlink":
            r.update(action="skip", warn=True, why="more than one link")
        elif not c["decompress"] and has_compr_suffix(o["name"]):
            r.update(action="skip", warn=True, why="compressed suffix")
        else:
            if regf:
                r["out"] = o["out"]
                if "sentinel" in f and not c["f"]:
                    r.update(action="skip", warn=True, out=None, why="output exists")
                elif o["out"] == "":
                    r.update(action="skip", warn=True, out=None, why="empty output name")
                else:
                    r["input_stays"] = keep
                    r["overwrite"] = "sentinel" in f
                    if o["mode"] & 0o7000:
                        r["warn"] = True          # documented: setuid/setgid/sticky are not restored, with a warning
        res.append(r)
    return res


def make_eval(exe):
    def ev(case, stats):
        c = normalise(case)
        with core.TempDir() as base:
            td = os.path.join(base, "d")
            os.mkdir(td)
            facts = build_dir(td, c)
            exp = model(c, facts)
            argv = [exe, "-d" if c["decompress"] else "-z", "-n", str(c["n"])]
            if not c["decompress"]:
                argv.append("-%d" % c["level"])
            for fl in "kctf":
                if c[fl]:
                    argv.append("-" + fl)
            argv += ["--"] + [o["name"] for o in c["ops"]]
            se = c.get("stderr", "pipe") if len(c["ops"]) == 1 else "pipe"
            if se == "pipe":
                r = core.run(argv, cwd=td, timeout=120)
                bad = check(td, c, facts, exp, r)
            else:
                before = snapshot_dir(td)
                r = run_unwritable_stderr(argv, td, se)
                if any(e["warn"] for e in exp):
                    bad = None
                    if r.rc != 1:
                        bad = "standard error is unwritable (%s) and a warning is due: exit status %s, expected 1" % (se, r.rc)
                    elif _without_forced(snapshot_dir(td), c) != _without_forced(before, c):
                        bad = "standard error is unwritable (%s) and a warning is due: the directory changed: %s -> %s" % (
                            se, sorted(before), sorted(snapshot_dir(td)))
                    elif r.out:
                        bad = "wrote %d bytes to stdout before failing on the warning" % len(r.out)
                else:
                    bad = check(td, c, facts, exp, r)
        nontriv = any(e["action"] == "process" or e["why"] != "missing" for e in exp)
        labels = ["decompress" if c["decompress"] else "compress"] + ["-" + fl for fl in "kctf" if c[fl]]
        if len(c["ops"]) == 1 and c.get("stderr", "pipe") != "pipe":
            labels.append("stderr-" + c["stderr"])
        for o, e in zip(c["ops"], exp):
            labels.append("type=" + o["type"])
            labels.append("skip:" + e["why"] if e["action"] == "skip" else "processed")
            if e.get("overwrite"):
                labels.append("overwrote-with--f")
            if o["suffix"]:
                labels.append("suffix=" + o["suffix"])
        stats.add(core.fp(c), nontriv, labels,
                  {"flags": [fl for fl in "kctf" if c[fl]], "decompress": c["decompress"],
                   "operands": [{k: o[k] for k in ("type", "name", "mode", "existing_out")} for o in c["ops"]],
                   "expected": [e["action"] + (":" + e["why"] if e["why"] else "") for e in exp], "rc": r.rc})
        if bad:
            f = dict(case)
            f["what"] = bad
            f["stderr_text"] = r.err[:400].decode(errors="replace")
            return f
        return None
    return ev


def snapshot_dir(td):
    snap = {}
    for n in os.listdir(td):
        p = os.path.join(td, n)
        s = os.lstat(p)
        if stat.S_ISREG(s.st_mode):
            # no read here: reading a file moves its access time, which the program under test copies to its output
            snap[n] = (s.st_ino, stat.S_IMODE(s.st_mode), s.st_mtime_ns, s.st_size)
        else:
            snap[n] = (s.st_ino, stat.S_IFMT(s.st_mode))
    return snap


def _without_forced(snap, c):
    """With -f lbzip2 removes an existing output file before it creates the new one (documented), so a run that fails
    afterwards has legitimately lost it: leave that name out of the comparison."""
    if not c["f"]:
        return snap
    outs = {o["out"] for o in c["ops"]}
    return {k: v for k, v in snap.items() if k not in outs}


def run_unwritable_stderr(argv, td, how):
    import subprocess
    e = dict(core.BASE_ENV)
    if how == "full":
        se = open("/dev/full", "wb")
        p = subprocess.Popen(argv, cwd=td, env=e, stdin=subprocess.DEVNULL, stdout=subprocess.PIPE, stderr=se)
        se.close()
    else:
        p = subprocess.Popen(argv, cwd=td, env=e, stdin=subprocess.DEVNULL, stdout=subprocess.PIPE,
                             preexec_fn=lambda: os.close(2))
    try:
        out, _ = p.communicate(timeout=120)
        to = False
    except subprocess.TimeoutExpired:
        p.kill()
        out, _ = p.communicate()
        to = True
    return core.Res(p.returncode, out or b"", b"", to, 0.0)


def check(td, c, facts, exp, r):
    if r.timeout:
        return "timeout"
    want_rc = 4 if any(e["warn"] for e in exp) else 0
    if r.rc != want_rc:
        return "exit status %s, model says %d (%s)" % (r.rc, want_rc, [e["action"] + ":" + e["why"] for e in exp])
    if want_rc == 0 and r.err:
        return "stderr not empty although no warning is due: %r" % r.err[:200]
    if want_rc == 4 and not r.err.strip():
        return "exit 4 without a warning on stderr"
    expected_names = set()
    stdout_expect = b""
    for o, f, e in zip(c["ops"], facts, exp):
        name = o["name"]
        p = os.path.join(td, name)
        # what must still be there
        if o["type"] != "missing":
            if e["input_stays"] or e["action"] == "skip":
                expected_names.add(name)
                if not os.path.lexists(p):
                    return "operand %s was removed (model: it stays; %s)" % (name, e["action"] + " " + e["why"])
            else:
                if os.path.lexists(p):
                    return "operand %s still exists although it was processed without -k/-c/-t" % name
        if o["type"] == "symlink":
            expected_names.add("target_" + name)
        if o["type"] == "hardlink":
            expected_names.add("link_" + name)
            lp = os.path.join(td, "link_" + name)
            if open(lp, "rb").read() != f["content"]:
                return "the other link of %s changed" % name
        if o["type"] in ("regular", "empty", "hardlink", "symlink") and os.path.exists(p):
            if open(p, "rb").read() != f["content"]:
                return "input %s was modified" % name
        if "sentinel" in f:
            expected_names.add(o["out"])
        if e["action"] == "skip":
            if "sentinel" in f:
                sp = os.path.join(td, o["out"])
                s = os.stat(sp)
                if (s.st_ino, s.st_mtime_ns, s.st_size) != f["sentinel"] or \
                        open(sp, "rb").read() != b"SENTINEL " + name.encode():
                    return "existing file %s was modified although the operand had to be skipped" % o["out"]
            continue
        produced = None
        if e["out"] is not None:
            op = os.path.join(td, e["out"])
            expected_names.add(e["out"])
            if not os.path.isfile(op) or os.path.islink(op):
                return "expected output file %r is missing" % e["out"]
            s = os.stat(op)              # before reading it: a read may update the access time
            produced = open(op, "rb").read()
            if "sentinel" in f and s.st_ino == f["sentinel"][0] and produced.startswith(b"SENTINEL"):
                return "-f given but the existing output %s was not replaced" % e["out"]
            mode, at, mt, nlink, ino = f["st"]
            if stat.S_IMODE(s.st_mode) != (mode & 0o777):
                return "output %s has mode %o, input had %o" % (e["out"], stat.S_IMODE(s.st_mode), mode & 0o777)
            if s.st_mtime_ns != mt:
                return "output %s mtime %d != input mtime %d" % (e["out"], s.st_mtime_ns, mt)
            if s.st_atime_ns != at:
                return "output %s atime %d != input atime %d" % (e["out"], s.st_atime_ns, at)
        elif c["c"]:
            produced = "stdout"
        if produced == "stdout":
            stdout_expect = None if stdout_expect is None else stdout_expect
        if e["out"] is not None:
            if c["decompress"]:
                if produced != f["plain"]:
                    return "output %s differs from the plaintext" % e["out"]
            else:
                try:
                    if bz2.decompress(produced) != f["content"]:
                        return "output %s does not decompress to the input" % e["out"]
                except (OSError, ValueError) as ex:
                    return "output %s is not valid bzip2: %s" % (e["out"], ex)
                if produced[:4] != b"BZh%d" % c["level"]:
                    return "output %s has header %r, level %d requested" % (e["out"], produced[:4], c["level"])
    got_names = set(os.listdir(td))
    if got_names != expected_names:
        return "directory differs: unexpected %s, missing %s" % (sorted(got_names - expected_names),
                                                                  sorted(expected_names - got_names))
    # stdout
    if c["c"]:
        want = b"".join(f["plain"] if c["decompress"] else f["content"]
                        for o, f, e in zip(c["ops"], facts, exp) if e["action"] == "process")
        try:
            got = r.out if c["decompress"] else bz2.decompress(r.out) if r.out else b""
        except (OSError, ValueError) as ex:
            return "-c output is not valid bzip2: %s" % ex
        if got != want:
            return "-c output differs from the concatenation of the processed operands (%d vs %d bytes)" % (len(got), len(want))
    elif r.out:
        return "wrote %d bytes to stdout without -c" % len(r.out)
    return None


def replay_case(case):
    exe = core.build("rel")
    c = {k: v for k, v in case.items() if k not in ("what", "stderr_text")}
    return make_eval(exe)(c, core.Stats())


def replay_file(path):
    r = replay_case(core.load_replay(path))
    if r is not None:
        print("VIOLATION property=%s replay=%s" % (PID, path))
        core.log(r["what"])
        return 1
    return 0


def run(tier, seed):
    t0 = time.time()
    exe = core.build("rel")
    n = 2400 if tier == "quick" else 40000
    stats, fails = core.hyp_search(strategy, make_eval(exe), n, seed)
    oc = core.conclude(PID, fails, replay_case)
    core.write_evidence(PID, tier, seed, "exploration", stats, RULE, time.time() - t0, violations=len(oc.violations),
                        assumptions=["model written from man/lbzip2.1; -f is generated only with regular / hard-linked / "
                                     "missing operands; directories only where the documented rule skips them; the checks "
                                     "run as root (fchown cannot fail)"])
    return oc.rc()
