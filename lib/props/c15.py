"""C15 — stored CRC fields are enforced: every bit of every stored block CRC
and stream CRC of a corpus of multi-block multi-stream files, x worker counts."""
import time

import core
import corpus
import lb

PID = "C15"
RULE = ("enumeration: for each generated valid file (1-3 concatenated streams from lbzip2 and bzip2, 1-3 blocks each, "
        "mixed bit alignments) EVERY bit of EVERY stored block CRC and stream CRC is flipped, and the damaged file is "
        "decompressed with 1, 2, 4 and 16 workers (plus one serialised PCT schedule, plus 4- and 8-byte input blocks so that the "
        "parser is suspended between the halves of a CRC); one more file per run has a stream CRC split 16/16 by the edge of "
        "the first 256 KiB input block at production size; oracle: exit status 1; "
        "every evaluation is non-trivial; distinct by (file, field, bit, workers)")
WORKERS = [(1, None, None), (2, None, None), (4, None, None), (16, None, None), (3, "serial", None),
           # 4- and 8-byte input blocks (hook): the parser is suspended after every 32-bit word, i.e. also between the
           # two 16-bit halves of a stored CRC
           (2, None, 4), (1, None, 8)]
EMPTY = b"BZh9" + bytes.fromhex("177245385090") + b"\0\0\0\0"


def straddle_file(seed):
    """A file at PRODUCTION block size whose second-to-last stream has its stored stream CRC split by the edge of the
    first 256 KiB input block (offset 4 + 262144): 16 bits on each side.  Padding = empty 14-byte streams."""
    import bz2
    import random
    import bzk
    r = random.Random(seed)
    for attempt in range(4000):
        d = bytes(r.choices(b"abcdefgh \n", k=r.randrange(20, 400)))
        z = bz2.compress(d, r.randrange(1, 10))
        info, _ = bzk.inspect(z)
        bc = info["streams"][0]["bit_crc"]
        if bc % 8:
            continue
        off = bc // 8 + 2                      # end of the high half, relative to the start of this stream
        rem = 4 + 262144 - off
        if rem < 0 or rem % 14:
            continue
        tail = bz2.compress(b"after the edge " * 3, 1)
        data = EMPTY * (rem // 14) + z + tail
        info, out = bzk.inspect(data)
        if not info["valid"]:
            continue
        return {"data": data, "plain": out, "desc": "crc-straddles-256KiB-edge-%dstreams" % len(info["streams"]), "info": info,
                "only_streams": [len(info["streams"]) - 2, len(info["streams"]) - 1]}
    raise core.HarnessError("could not build the straddling file")


def make_eval(exe, files):
    def ev(item, stats):
        fi, name, bit0, k, si, bi, n, sched, ing = item
        f = files[fi]
        data = corpus.flip_bit(f["data"], bit0 + k)
        sc = None
        if sched == "serial":
            sc = "serial:%d:pct:2:300" % (bit0 + k)
        if ing and len(data) // ing > 8000:
            ing = None
        r = lb.decompress(exe, data, n, sc, ing=ing)
        if r.timeout:
            stats.inconclusive += 1
            return None
        nstreams = len(f["info"]["streams"])
        nb = len(f["info"]["streams"][si]["blocks"])
        labels = [name, "workers=%d%s" % (n, "-serial" if sched else ""),
                  "first-stream" if si == 0 else "later-stream"]
        if ing:
            labels.append("input-blocks=%dB" % ing)
        if f["desc"].startswith("crc-straddles"):
            labels.append("crc-straddles-256KiB-input-block-edge")
        if name == "block_crc":
            labels.append("first-block" if bi == 0 else "last-block" if bi == nb - 1 else "middle-block")
            if f["info"]["streams"][si]["blocks"][bi]["bit"] % 8:
                labels.append("block-not-byte-aligned")
        if si == nstreams - 1:
            labels.append("last-stream")
        stats.add(core.fp(fi, name, si, bi, k, n, sched, ing), True, labels,
                  {"file": f["desc"], "field": name, "stream": si, "block": bi, "bit": k, "workers": n,
                   "rc": r.rc} if k == 0 and n == 1 else None)
        if r.rc != 1:
            return {"file_desc": f["desc"], "data_hex": data.hex() if len(data) < 6000 else None,
                    "corpus_seed": files.seed, "file_index": fi, "field": name, "stream": si, "block": bi, "bit": k,
                    "abs_bit": bit0 + k, "workers": n, "sched": sc, "ing": ing,
                    "straddle": f["desc"].startswith("crc-straddles"),
                    "what": "rc=%s (expected 1) stderr=%r" % (r.rc, r.err[:200])}
        return None
    return ev


class Files(list):
    seed = 0


def build_files(exe, seed, count):
    fs = Files()
    fs.seed = seed
    k = 0
    while len(fs) < count and k < 20:
        for f in corpus.build(exe, seed * 100 + k, 4, small=True, with_repo_samples=False):
            nb = sum(len(s["blocks"]) for s in f["info"]["streams"])
            if len(f["info"]["streams"]) >= 2 and nb >= 3 and len(fs) < count:
                fs.append(f)
        k += 1
    fs.append(straddle_file(seed))
    return fs


def items_of(files):
    items = []
    for fi, f in enumerate(files):
        for name, bit, width, si, bi in corpus.fields(f["info"]):
            if name in ("block_crc", "stream_crc"):
                if "only_streams" in f and si not in f["only_streams"]:
                    continue
                for k in range(width):
                    for n, sched, ing in WORKERS:
                        items.append((fi, name, bit, k, si, bi, n, sched, ing))
    return items


def replay_case(case):
    exe = core.build("rel")
    if case.get("data_hex"):
        data = bytes.fromhex(case["data_hex"])
    else:
        if case.get("straddle"):
            base = straddle_file(case["corpus_seed"])["data"]
        else:
            base = build_files(exe, case["corpus_seed"], case["file_index"] + 1)[case["file_index"]]["data"]
        data = corpus.flip_bit(base, case["abs_bit"])
    r = lb.decompress(exe, data, case["workers"], case.get("sched"), ing=case.get("ing"))
    if r.rc != 1 and not r.timeout:
        return dict(case, what="rc=%s" % r.rc)
    return None


def replay_file(path):
    r = replay_case(core.load_replay(path))
    if r is not None:
        print("VIOLATION property=%s replay=%s" % (PID, path))
        return 1
    return 0


def run(tier, seed):
    t0 = time.time()
    exe = core.build("rel")
    files = build_files(exe, seed, 3 if tier == "quick" else 40)
    items = items_of(files)
    stats, fails = core.pmap_cases(make_eval(exe, files), items)
    oc = core.conclude(PID, fails, replay_case)
    core.write_evidence(PID, tier, seed, "fault_enumeration", stats, RULE, time.time() - t0,
                        violations=len(oc.violations), exhaustive=True,
                        extra={"files": [f["desc"] for f in files]},
                        assumptions=["field positions come from bzkit's field map of the undamaged file"])
    return oc.rc()
