"""C09 — decompression result is independent of configuration and schedule."""
import os
import time

from hypothesis import strategies as st

import bzk
import core
import corpus
import lb
import mutate
import plain
from props import _dec

PID = "C09"
RULE = ("case = one compressed input (valid multi-block / multi-stream file from two encoders, run-heavy files whose "
        "blocks expand over many output buffers, or a mutated = usually invalid version) and K >= 6 contexts drawn from "
        "workers 1-16 x {free, perturbed, serialised PCT/random-walk schedule} x input block size {4..64, 256, 4096, "
        "262144} x output buffer size {1..64, 4096, 900000} x seeded short reads x {stdin file, fragmented pipe} x "
        "{stdout, -c FILE, FILE operand, -t}; oracle: same exit status everywhere; when 0, bytes identical and equal to "
        "the bzkit reference; -t writes nothing; when 1, bytes written to stdout are a prefix of the reference decoding; "
        "non-trivial = >= 2 blocks and >= 1 context with input blocks < 4096 bytes and >= 1 with output buffers <= 64 "
        "bytes; distinct by input hash.  In-process: see coverage.inproc")

CTX = st.fixed_dictionaries({
    "n": st.sampled_from([1, 2, 3, 4, 8, 16]),
    "sched": st.one_of(st.none(), st.integers(0, 10**6).map(lambda s: "perturb:%d" % s),
                       st.tuples(st.sampled_from(["pct", "rw", "rr"]), st.integers(0, 10**6), st.integers(1, 4)).map(
                           lambda t: "serial:%d:%s:%d:800" % (t[1], t[0], t[2]))),
    "ing": st.sampled_from([None, None, 4, 8, 12, 16, 20, 32, 64, 256, 4096]),
    "outg": st.sampled_from([None, None, 1, 2, 3, 5, 7, 17, 64, 4096]),
    "short": st.one_of(st.none(), st.none(), st.integers(0, 10**6)),
    "stdin": st.one_of(st.just("file"), st.just("file"),
                       st.lists(st.tuples(st.sampled_from([1, 3, 100, 4096, 65536, 262143, 262144, 262145]),
                                          st.sampled_from([0, 0, 0, 1, 20])), min_size=1, max_size=3)),
    "mode": st.sampled_from(["stdout", "stdout", "cfile", "operand", "test"]),
})


def strategy(nfiles):
    def mk():
        return st.fixed_dictionaries({
            "file": st.integers(0, nfiles - 1),
            "ops": st.one_of(st.just([]), st.just([]), mutate.op_strategy()),
            "ctxs": st.lists(CTX, min_size=5, max_size=7),
        })
    return mk


MAXBUF = 6000   # bound on the number of I/O blocks per run (each is a scheduled task)


def eff_granul(ctx, in_len, out_len):
    """Effective block sizes: the generated ones, raised so that a run has at most MAXBUF blocks."""
    ing, outg = ctx["ing"], ctx["outg"]
    if ing and in_len // ing > MAXBUF:
        ing = (in_len // MAXBUF + 4) // 4 * 4
    if outg and out_len // outg > MAXBUF:
        outg = out_len // MAXBUF + 1
    return ing, outg


def run_ctx(exe, shim, data, ctx, td, out_len=0):
    """Returns (Res, bytes written, wrote_to_pipe)."""
    env = dict(lb.sched_env(ctx["sched"]))
    ing, outg = eff_granul(ctx, len(data), out_len)
    if ing:
        env["LBZIP2_VERIF_IN_GRANUL"] = str(ing)
    if outg:
        env["LBZIP2_VERIF_OUT_GRANUL"] = str(outg)
    if ctx["short"] is not None:
        env["LD_PRELOAD"] = shim
        env["IOFAULT"] = "short=%d" % ctx["short"]
    n = ["-n", str(ctx["n"])]
    inp = os.path.join(td, "x.bz2")
    mode = ctx["mode"]
    if mode == "operand":
        outp = os.path.join(td, "x")
        if os.path.exists(outp):
            os.unlink(outp)
        r = core.run([exe, "-d", "-k"] + n + [inp], env=env, cwd=td)
        out = open(outp, "rb").read() if os.path.exists(outp) else None
        if out is not None:
            os.unlink(outp)
        return r, out, False
    if mode == "cfile":
        r = core.run([exe, "-d", "-c"] + n + [inp], env=env, cwd=td)
        return r, r.out, True
    argv = [exe, "-t" if mode == "test" else "-d"] + n
    if ctx["stdin"] == "file":
        r = core.run(argv, env=env, stdin_file=inp)
    else:
        r = core.run_fed(argv, data, ctx["stdin"], env=env)
    return r, r.out, True


def make_eval(exe, shim, files):
    def ev(case, stats):
        f = files[case["file"] % len(files)]
        data, tags = mutate.apply(f, case["ops"]) if case["ops"] else (f["data"], [])
        verdict, ref, info = _dec.reference(data)
        if verdict == "disagree":
            stats.extra["oracle-disagreement(skipped)"] += 1
            return None
        bad = None
        bad_ctx = None
        rcs = {}
        with core.TempDir() as td:
            with open(os.path.join(td, "x.bz2"), "wb") as fh:
                fh.write(data)
            ctxs = [{"n": 1, "sched": None, "ing": None, "outg": None, "short": None, "stdin": "file",
                     "mode": "stdout"}] + list(case["ctxs"])
            base_rc = None
            for ci, ctx in enumerate(ctxs):
                r, out, piped = run_ctx(exe, shim, data, ctx, td, info["out_len"])
                if r.timeout:
                    stats.inconclusive += 1
                    continue
                if ci == 0:
                    base_rc = r.rc
                if r.rc not in (0, 1):
                    bad = "exit status %s (stderr %r)" % (r.rc, r.err[:300])
                elif base_rc is not None and r.rc != base_rc:
                    bad = "exit status %s here, %s in the baseline context; stderr %r" % (r.rc, base_rc, r.err[:200])
                elif r.rc == 0:
                    if ctx["mode"] == "test":
                        if out:
                            bad = "-t wrote %d bytes" % len(out)
                    elif out is None:
                        bad = "no output file"
                    elif verdict == "valid" and out != ref:
                        bad = "exit 0 but bytes differ from the reference decoding (%d vs %d)" % (len(out), len(ref))
                    elif ctx["mode"] != "test" and rcs.get("bytes") is not None and out != rcs["bytes"]:
                        bad = "exit 0 but bytes differ from another context"
                    if ctx["mode"] != "test" and out is not None:
                        rcs.setdefault("bytes", out)
                elif r.rc == 1:
                    if ctx["mode"] == "operand":
                        if out is not None:
                            bad = "exit 1 but an output file exists"
                    elif out and verdict in ("valid", "invalid") and not ref.startswith(out):
                        # A block whose stored CRC is wrong is only known to be bad when its last byte has been
                        # produced; the output buffers before that are already with the writer (at production sizes:
                        # any block that decodes to more than 900000 bytes).  bzip2 behaves the same way.  So what may
                        # precede the failure is the decoding with CRC comparison postponed.
                        _, lenient = bzk.inspect(data, lenient_crc=True)
                        if not lenient.startswith(out):
                            bad = ("exit 1 and the %d bytes written are not a prefix of the sequential decoding "
                                   "(CRC checks postponed)" % len(out))
                        else:
                            stats.extra["rc1-output-includes-bytes-of-a-bad-crc-block"] += 1
                    if not r.err.strip():
                        bad = bad or "exit 1 without a diagnostic"
                if bad:
                    bad_ctx = ctx
                    break
        nblocks = sum(len(s["blocks"]) for s in info["streams"])
        eg = [eff_granul(c, len(data), info["out_len"]) for c in case["ctxs"]]
        small_in = any(i and i < 4096 for i, o in eg)
        small_out = any(o and o <= 64 for i, o in eg)
        labels = ["ref:" + verdict, "baseline-rc=%s" % base_rc]
        if nblocks >= 2:
            labels.append("blocks>=2")
        if info["out_len"] > 900000:
            labels.append("block-output>900000(multi-buffer at production size)")
        for c in case["ctxs"]:
            labels.append("mode=" + c["mode"])
            if c["sched"]:
                labels.append("sched=" + c["sched"].split(":")[0])
        for i, o in eg:
            if i:
                labels.append("in_granul<=64" if i <= 64 else "in_granul<4096" if i < 4096 else "in_granul>=4096")
            if o:
                labels.append("out_granul<=64" if o <= 64 else "out_granul>64")
        stats.add(core.fp(data), nblocks >= 2 and small_in and small_out, labels,
                  {"file": f["desc"], "mutations": sorted(set(tags)), "ref": verdict, "rc": base_rc,
                   "contexts": case["ctxs"][:2]})
        stats.extra["contexts-run"] += len(case["ctxs"]) + 1
        if bad:
            return {"data_hex": data.hex() if len(data) < 400000 else None, "file": case["file"], "ops": case["ops"],
                    "ctxs": [bad_ctx], "what": bad, "file_desc": f["desc"], "ref": verdict}
        return None
    return ev


def run_heavy_files(exe, seed, tier):
    """Valid files whose blocks decode to far more than one 900000-byte output buffer and
    that contain runs crossing every kind of buffer edge."""
    import random
    r = random.Random(seed + 99)
    out = []
    for i in range(2 if tier == "quick" else 8):
        segs = []
        for _ in range(r.randrange(3, 9)):
            segs.append(("run", r.randrange(256), r.choice([255, 256, 259, 260, 1000, 65536, 300000, 899990, 900001])))
            segs.append(("rand", r.randrange(1, 200), r.randrange(1 << 30)))
        d = plain.materialize(segs)
        z = corpus._bzip2(d, 9) if i % 2 else lb.compress(exe, d, 9, False, 2).out
        info, o = bzk.inspect(z)
        if info["valid"] and o == d:
            out.append({"data": z, "plain": d, "desc": "runheavy-%dB->%dB" % (len(z), len(d)), "info": info})
    return out


def build_files(exe, seed, tier):
    files = corpus.build(exe, seed, 6 if tier == "quick" else 30)
    files += _dec.tiny_files(exe, seed, 4 if tier == "quick" else 20)
    files += run_heavy_files(exe, seed, tier)
    return files


def replay_case(case):
    if case.get("inproc"):
        from props import _inproc
        return _inproc.replay(case)
    exe = core.build("rel")
    shim = core.tool("iofault.so")
    if case.get("data_hex"):
        data = bytes.fromhex(case["data_hex"])
        info, o = bzk.inspect(data)
        files = [{"data": data, "plain": o, "desc": "replay", "info": info}]
        c = {"file": 0, "ops": [], "ctxs": case["ctxs"]}
    else:
        files = build_files(exe, case.get("seed", core.env_seed()), case.get("tier", "quick"))
        c = case
    return make_eval(exe, shim, files)(c, core.Stats())


def replay_file(path):
    r = replay_case(core.load_replay(path))
    if r is not None:
        print("VIOLATION property=%s replay=%s" % (PID, path))
        core.log(r["what"])
        return 1
    return 0


def run(tier, seed):
    t0 = time.time()
    exe = core.build("rel")
    shim = core.tool("iofault.so")
    files = build_files(exe, seed, tier)
    n = 150 if tier == "quick" else 2000
    stats, fails = core.hyp_search(strategy(len(files)), make_eval(exe, shim, files), n, seed)
    for f in fails:
        f["seed"], f["tier"] = seed, tier
    extra = {}
    # in-process: retrieve() resumed after every single 32-bit input word and emit() called with 1-byte ... 900000-byte
    # buffers (every NEED() site, every emitter state) versus one-piece decoding, on generated valid files and on files
    # with one catalogue defect
    from props import _inproc
    _inproc.add(stats, fails, "decode_valid", seed, 6000 if tier == "quick" else 200000)
    _inproc.add(stats, fails, "decode_defect", seed, 2500 if tier == "quick" else 60000)
    _inproc.add(stats, fails, "decode_sym", seed, 5000 if tier == "quick" else 200000)
    oc = core.conclude(PID, fails, replay_case, confirm_runs=4)
    core.write_evidence(PID, tier, seed, "exploration", stats, RULE, time.time() - t0,
                        violations=len(oc.violations), extra=extra,
                        assumptions=["input/output block sizes other than 262144/900000 exist only through the "
                                     "KJN_LBZIP2_VERIF hook; a failure seen only there is re-created at production sizes "
                                     "before it is reported (DESIGN.md section 3)"])
    return oc.rc()
