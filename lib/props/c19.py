"""C19 — -cdf passes non-bzip2 data through unchanged."""
import bz2
import os
import time

from hypothesis import strategies as st

import core
import lb

PID = "C19"
RULE = ("case = 1-3 inputs, each either NON-header data (lengths 0-3; prefixes B, BZ, BZh, BZh0, BZhA, BZh: + random "
        "tails; lengths 4 + 65536k + d for k in 0..5, d in -2..2; random / text data) or header data (valid, damaged or "
        "truncated bzip2); a single input goes through stdin (regular file or pipe in generated fragments, incl. 1-byte "
        "writes), several go as FILE operands of one 'lbzip2 -cdf' run; workers 1-16, serialised or free schedules; "
        "oracle: non-header inputs are copied byte for byte with exit 0 and empty stderr; header inputs give the exit "
        "status (and, when 0, the bytes) of plain 'lbzip2 -cd'; non-trivial = some input of length >= 4 or a magic "
        "near-miss; distinct by (inputs hash, mode)")

NEAR = [b"", b"B", b"BZ", b"BZh", b"BZh0", b"BZhA", b"BZh:", b"BZh/", b"BZH9", b"bZh9", b"BZi1", b"AZh1", b"BZh\x00",
        b"BZh\xff"]


def one_input():
    seed = st.integers(0, 2**32 - 1)
    nonhdr = st.one_of(
        st.tuples(st.just("near"), st.integers(0, len(NEAR) - 1), st.sampled_from([0, 0, 1, 2, 10, 5000, 70000]), seed),
        st.tuples(st.just("size"), st.integers(0, 5), st.integers(-2, 2), seed),
        st.tuples(st.just("rand"), st.integers(0, 300000), seed),
        st.tuples(st.just("short"), st.integers(0, 3), seed),
    )
    hdr = st.one_of(
        st.tuples(st.just("bz2"), st.integers(0, 200000), st.integers(1, 9), seed),
        st.tuples(st.just("bz2trunc"), st.integers(1, 5000), st.integers(1, 60), seed),
        st.tuples(st.just("bz2bad"), st.integers(1, 5000), st.integers(0, 400), seed),
        st.tuples(st.just("hdronly"), st.integers(1, 9), st.integers(0, 30), seed),
    )
    return st.one_of(nonhdr, nonhdr, nonhdr, hdr)


def materialize(t):
    import random
    kind = t[0]
    r = random.Random(t[-1])
    if kind == "near":
        return NEAR[t[1]] + r.randbytes(t[2])
    if kind == "size":
        n = max(0, 4 + 65536 * t[1] + t[2])
        d = bytearray(r.randbytes(n))
        if n >= 4 and bytes(d[:3]) == b"BZh":
            d[0] = 0x41
        return bytes(d)
    if kind == "rand":
        d = bytearray(r.randbytes(t[1]))
        if bytes(d[:3]) == b"BZh":
            d[0] = 0x41
        return bytes(d)
    if kind == "short":
        return bytes(r.choice(b"BZh19\x00x") for _ in range(t[1]))
    if kind == "bz2":
        return bz2.compress(r.randbytes(t[1] // 2) + b"text " * (t[1] // 10), t[2])
    if kind == "bz2trunc":
        z = bz2.compress(r.randbytes(t[1]), 9)
        return z[:max(4, len(z) - t[2])]
    if kind == "bz2bad":
        z = bytearray(bz2.compress(r.randbytes(t[1]), 9))
        z[4 + t[2] % (len(z) - 4)] ^= 1 << (t[2] % 8)
        return bytes(z)
    if kind == "hdronly":
        return b"BZh" + bytes([0x30 + t[1]]) + r.randbytes(t[2])
    raise ValueError(t)


def is_header(d):
    return len(d) >= 4 and d[:3] == b"BZh" and 0x31 <= d[3] <= 0x39


def strategy():
    return st.fixed_dictionaries({
        "inputs": st.lists(one_input(), min_size=1, max_size=3),
        "n": st.sampled_from([1, 2, 3, 4, 16]),
        "sched": st.one_of(st.none(), st.none(), st.tuples(st.sampled_from(["pct", "rw", "rr"]), st.integers(0, 10**6),
                                                          st.integers(1, 3)).map(
            lambda t: "serial:%d:%s:%d:300" % (t[1], t[0], t[2]))),
        "stdin": st.one_of(st.just("file"), st.lists(st.tuples(st.sampled_from([1, 2, 3, 4, 5, 100, 65535, 65536, 65537]),
                                                               st.sampled_from([0, 0, 1, 10])), min_size=1, max_size=3)),
        "operands": st.booleans(),
    })


def make_eval(exe):
    def ev(case, stats):
        datas = [materialize(tuple(t)) for t in case["inputs"]]
        use_ops = case["operands"] or len(datas) > 1
        env = lb.sched_env(case["sched"])
        with core.TempDir() as td:
            paths = []
            for i, d in enumerate(datas):
                p = os.path.join(td, "f%d" % i)
                with open(p, "wb") as f:
                    f.write(d)
                paths.append(p)
            # expected, operand by operand: pass-through or plain -cd behaviour
            exp_out = b""
            exp_rc = 0
            for d, p in zip(datas, paths):
                if is_header(d):
                    r0 = core.run([exe, "-cd", "-n", str(case["n"])], stdin_file=p)
                    if r0.timeout:
                        stats.inconclusive += 1
                        return None
                    if r0.rc != 0:
                        exp_rc = r0.rc
                        break
                    exp_out += r0.out
                else:
                    exp_out += d
            argv = [exe, "-cdf", "-n", str(case["n"])]
            if use_ops:
                r = core.run(argv + paths, env=env, cwd=td)
            elif case["stdin"] == "file":
                r = core.run(argv, env=env, stdin_file=paths[0])
            else:
                r = core.run_fed(argv, datas[0], case["stdin"], env=env)
            left = sorted(os.listdir(td))
        if r.timeout:
            stats.inconclusive += 1
            return None
        bad = None
        if r.rc != exp_rc:
            bad = "exit status %s, expected %s (stderr %r)" % (r.rc, exp_rc, r.err[:200])
        elif exp_rc == 0 and r.out != exp_out:
            k = next((i for i in range(min(len(r.out), len(exp_out))) if r.out[i] != exp_out[i]),
                     min(len(r.out), len(exp_out)))
            bad = "stdout differs at byte %d (%d bytes, expected %d)" % (k, len(r.out), len(exp_out))
        elif exp_rc == 0 and r.err:
            bad = "unexpected stderr %r" % r.err[:200]
        elif exp_rc != 0 and not exp_out.startswith(r.out[:len(exp_out)]):
            bad = "bytes written before the failure are not the expected prefix"
        elif left != sorted(os.path.basename(p) for p in paths):
            bad = "files changed: %r" % left
        nontriv = any(len(d) >= 4 or d in NEAR for d in datas)
        labels = ["operands" if use_ops else ("stdin-file" if case["stdin"] == "file" else "stdin-fragmented-pipe"),
                  "workers=%d" % case["n"]]
        for t, d in zip(case["inputs"], datas):
            labels.append("in:" + t[0])
            if not is_header(d):
                labels.append("len%%65536=%d" % (len(d) % 65536) if len(d) % 65536 in (2, 3, 4, 5, 6) else
                              "len<4" if len(d) < 4 else "len-other")
        if case["sched"]:
            labels.append("serial-schedule")
        if len(datas) > 1:
            labels.append("multi-operand")
        stats.add(core.fp(datas, use_ops), nontriv, labels,
                  {"inputs": [list(t) for t in case["inputs"]], "lens": [len(d) for d in datas], "mode": labels[0],
                   "n": case["n"], "sched": case["sched"]})
        if bad:
            return dict(case, what=bad)
        return None
    return ev


def replay_case(case):
    return make_eval(core.build("rel"))(case, core.Stats())


def replay_file(path):
    r = replay_case(core.load_replay(path))
    if r is not None:
        print("VIOLATION property=%s replay=%s" % (PID, path))
        core.log(r["what"])
        return 1
    return 0


def run(tier, seed):
    t0 = time.time()
    exe = core.build("rel")
    n = 1800 if tier == "quick" else 40000
    stats, fails = core.hyp_search(strategy, make_eval(exe), n, seed)
    oc = core.conclude(PID, fails, replay_case, confirm_runs=5)
    core.write_evidence(PID, tier, seed, "exploration", stats, RULE, time.time() - t0,
                        violations=len(oc.violations),
                        assumptions=["for header inputs the reference is the same binary run as plain 'lbzip2 -cd' "
                                     "(that is what the property states); its correctness is C05/C06/C07's business"])
    return oc.rc()
