"""C04 — block boundaries follow the greedy run-length packing rule
(process level; the in-process exhaustive part is inproc/pbt_collect)."""
import time

import core
import lb
import plain
from props import _enc

PID = "C04"
RULE = ("process level: case = (plaintext segments weighted to runs around 4/259 and to capacity-boundary bodies "
        "(RLE size = N*100000 + delta, delta in -6..6), level, --sequential?, workers, schedule); per block the "
        "(consumed input bytes, run-length-encoded size) recovered from the compressed stream by bzkit must equal "
        "the independent greedy model; non-trivial = input has a run >= 4 or some block reaches capacity-3 or more; "
        "distinct by (input hash, level, mode).  In-process: see coverage.inproc")


def make_eval(exe):
    def ev(case, stats):
        data, r, info, out = _enc.compress_and_inspect(exe, case)
        if r.timeout:
            stats.inconclusive += 1
            return None
        cap = case["level"] * 100000
        bad = None
        labels = ["level%d" % case["level"], "seq" if case["seq"] else "par", lb.size_class(len(data))]
        nontriv = False
        if info is None:
            bad = "compressor failed rc=%s err=%r" % (r.rc, r.err[:200])
        elif not info["valid"] or out != data:
            bad = "stream invalid or decodes to other bytes (%s)" % info["reason"]
        else:
            got = [(b["out_len"], b["nblock"]) for b in _enc.blocks_of(info)]
            want = plain.model_blocks(data, case["level"], case["seq"])
            rl = plain.run_lengths(data)
            hasrun = bool(len(rl)) and int(rl.max()) >= 4
            full = any(u >= cap - 3 for _, u in want)
            nontriv = hasrun or full
            if hasrun:
                labels.append("run>=4")
            if len(rl) and int(rl.max()) > 259:
                labels.append("run>259")
            if full:
                labels.append("block-at-capacity")
            if any(u == cap for _, u in want):
                labels.append("block-exactly-full")
            if any(cap - 3 <= u < cap for _, u in want[:-1]):
                labels.append("block-closed-below-capacity(lookahead)")
            if len(want) >= 2:
                labels.append("blocks>=2")
            if not case["seq"] and len(want) > (len(data) + cap - 1) // cap:
                labels.append("chunk-split-by-expansion")
            if got != want:
                k = next((i for i, (a, b) in enumerate(zip(got, want)) if a != b), min(len(got), len(want)))
                bad = "block %d: got (consumed, rle size) %s, model %s (blocks got %d model %d)" % (
                    k, got[k] if k < len(got) else None, want[k] if k < len(want) else None, len(got), len(want))
        stats.add(core.fp(data, case["level"], case["seq"]), nontriv, labels,
                  {"segs": case["segs"][:3], "len": len(data), "level": case["level"], "seq": case["seq"]})
        if bad:
            f = dict(case)
            f["what"] = bad
            return f
        return None
    return ev


def fixed_cases():
    cs = []
    for level in (1, 2):
        cap = level * 100000
        for delta in range(-5, 6):
            for tail in ([["run", 65, 3]], [["run", 65, 4]], [["run", 65, 5]], [["run", 65, 259], ["run", 66, 1]],
                         [["run", 65, 260]], [["lit", "4141414242"]]):
                for seq in (False, True):
                    cs.append({"segs": [["fill", cap + delta - 2, 11 + delta]] + tail + [["rand", 30, 5]],
                               "level": level, "seq": seq, "n": 2, "sched": None})
    return cs


def replay_case(case):
    if case.get("inproc"):
        from props import _inproc
        return _inproc.replay(case)
    return make_eval(core.build("rel"))(case, core.Stats())


def replay_file(path):
    r = replay_case(core.load_replay(path))
    if r is not None:
        print("VIOLATION property=%s replay=%s" % (PID, path))
        core.log(r["what"])
        return 1
    return 0


def run(tier, seed):
    t0 = time.time()
    exe = core.build("rel")
    n, mt = (600, 400000) if tier == "quick" else (8000, 3000000)
    ev = make_eval(exe)
    st0, f0 = core.pmap_cases(ev, fixed_cases())
    stats, fails = core.hyp_search(lambda: _enc.case_strategy(mt, boundary_weight=3), ev, n, seed)
    stats.merge(st0)
    extra = {}
    # in-process: collect() itself on alphabets of 1-3 letters, capacities 1-3000 and generated splits of the input
    # into successive buffers, against an independent greedy model (consumed count, block bytes, CRC per block)
    from props import _inproc
    _inproc.add(stats, fails, "collect", seed, 200000 if tier == "quick" else 6000000)
    oc = core.conclude(PID, f0 + fails, replay_case)
    core.write_evidence(PID, tier, seed, "exploration", stats, RULE, time.time() - t0,
                        violations=len(oc.violations), extra=extra,
                        assumptions=["the greedy model (lib/plain.py, 60 lines) is the specification; it is self-tested "
                                     "against a brute-force RLE on small strings"])
    return oc.rc()
