"""C22 — invocation name and option sources select the documented mode."""
import bz2
import os
import time

from hypothesis import strategies as st

import core

PID = "C22"
RULE = ("case = (invocation name incl. paths, list of option atoms rendered short / clustered / long, split point of the "
        "token list between LBZIP2, BZIP2, BZIP (space / tab separated) and the command line, stdin or a FILE operand, "
        "positions where documented no-op options and -s/--small are inserted); oracle 1: executable model of the man "
        "page (mode = name rule then every -d/-z overrides, last wins; destination; level = last level option) checked "
        "through observables: where the output went, that it decodes / encodes correctly with the expected header digit, "
        "exit status; oracle 2 (metamorphic): moving the environment tokens to the front of the command line, and "
        "inserting no-op options, give identical bytes, files and status; non-trivial = >= 2 mode-affecting tokens, a "
        "non-default name or >= 1 environment token; distinct by (name, tokens, split)")

NAMES = ["lbzip2", "bzip2", "lbunzip2", "bunzip2", "lbzcat", "bzcat", "some/dir/bunzip2", "./x/lbzcat", "/opt/bin/bzip2",
         "other", "bunzip", "BZCAT", "lbzip2-1.0", "zcat"]
SHORT = {"d": "-d", "z": "-z", "c": "-c", "k": "-k", "f": "-f", "u": "-u", "t": "-t"}
LONG = {"d": "--decompress", "z": "--compress", "c": "--stdout", "k": "--keep", "f": "--force", "u": "--sequential",
        "t": "--test", "fast": "--fast", "best": "--best"}
NOOPS = ["-q", "--quiet", "--repetitive-fast", "--repetitive-best", "--exponential", "-s", "--small", "-qq", "-sq"]

ATOM = st.one_of(st.sampled_from(["d", "z", "d", "z", "c", "k", "f", "u", "fast", "best", "n2", "n3"]),
                 st.integers(1, 9).map(str))


def strategy():
    return st.fixed_dictionaries({
        "name": st.sampled_from(NAMES),
        "atoms": st.lists(ATOM, min_size=0, max_size=6),
        "style": st.lists(st.sampled_from(["short", "long", "cluster"]), min_size=6, max_size=6),
        "test_last": st.booleans(),
        "env_split": st.tuples(st.integers(0, 6), st.integers(0, 6), st.integers(0, 6)),
        "sep": st.sampled_from([" ", "\t", "  ", " \t "]),
        "operand": st.booleans(),
        "dashdash": st.booleans(),
        "noops": st.lists(st.tuples(st.integers(0, 8), st.sampled_from(NOOPS)), max_size=3),
        # leading / trailing / doubled separators inside the variables, and variables that are set but empty
        "envdeco": st.tuples(st.sampled_from(["", "", " ", "\t", "  "]), st.sampled_from(["", "", " ", "\t ", "  "]),
                             st.sampled_from([None, None, None, "", " ", "\t"])),
        "inner": st.lists(st.tuples(st.integers(0, 5), st.integers(0, 6), st.sampled_from(["q", "s", "qs"])), max_size=2),
        "seed": st.integers(0, 10**6),
    })


def render(atoms, style):
    """atoms -> token list (short / long / clustered spellings)."""
    toks = []
    i = 0
    while i < len(atoms):
        a = atoms[i]
        sty = style[i % len(style)]
        if a in ("n2", "n3"):
            toks += (["-n" + a[1]] if sty != "long" else ["-n", a[1]])
        elif a in ("fast", "best"):
            toks.append(LONG[a])
        elif a.isdigit():
            toks.append("-" + a)
        elif sty == "long":
            toks.append(LONG[a])
        elif sty == "cluster":
            cl = "-"
            while i < len(atoms) and (atoms[i] in SHORT or atoms[i].isdigit()):
                cl += atoms[i]
                i += 1
            toks.append(cl)
            continue
        else:
            toks.append(SHORT[a])
        i += 1
    return toks


def model(name, atoms):
    base = name.rsplit("/", 1)[-1]
    dec = base in ("bunzip2", "lbunzip2", "bzcat", "lbzcat")
    out = "stdout" if base in ("bzcat", "lbzcat") else "file"
    level = 9
    keep = False
    test = False
    for a in atoms:
        if a == "d":
            dec, test = True, False
        elif a == "z":
            dec, test = False, False
        elif a == "c":
            out = "stdout"
        elif a == "t":
            test, dec = True, True
        elif a == "k":
            keep = True
        elif a == "fast":
            level = 1
        elif a == "best":
            level = 9
        elif a.isdigit():
            level = int(a)
    return dec, out, level, keep, test


def run_once(exe, name, env_toks, cmd_toks, sep, operand, dec, td, tag, plain, z, deco=None):
    """Returns observable dict."""
    d = os.path.join(td, tag)
    os.makedirs(d)
    env = {}
    for var, toks in zip(("LBZIP2", "BZIP2", "BZIP"), env_toks):
        if toks is not None:
            env[var] = sep.join(toks)
            if deco:
                env[var] = deco[0] + env[var] + deco[1]      # separators cannot be escaped and delimit nothing here
        elif deco and deco[2] is not None:
            env[var] = deco[2]                                # set, but holds no token
    argv = [exe] + cmd_toks
    if operand:
        fn = "data.bz2" if dec else "data"
        with open(os.path.join(d, fn), "wb") as f:
            f.write(z if dec else plain)
        r = core.run(argv + [fn], env=env, cwd=d, argv0=name)
    else:
        r = core.run(argv, stdin=(z if dec else plain), env=env, cwd=d, argv0=name)
    files = {}
    for fn in sorted(os.listdir(d)):
        with open(os.path.join(d, fn), "rb") as f:
            files[fn] = f.read()
    return {"rc": r.rc, "out": r.out, "err": r.err, "files": files, "timeout": r.timeout}


def check_model(o, dec, out, level, keep, test, operand, plain, z):
    if o["rc"] != 0:
        return "exit status %s, stderr %r" % (o["rc"], o["err"][:200])
    want = plain if dec else None
    def good(b):
        if dec:
            return b == plain
        try:
            return bz2.decompress(b) == plain and b[:4] == b"BZh" + bytes([0x30 + level])
        except (OSError, ValueError):
            return False
    if test:
        if o["out"]:
            return "-t wrote to stdout"
        if operand and sorted(o["files"]) != ["data.bz2"]:
            return "-t changed files: %r" % sorted(o["files"])
        return None
    if not operand or out == "stdout":
        if not good(o["out"]):
            return "stdout is not the expected %s (level %d); %d bytes" % ("plaintext" if dec else "bzip2 stream", level, len(o["out"]))
        if operand:
            src = "data.bz2" if dec else "data"
            if sorted(o["files"]) != [src]:
                return "files after a stdout run: %r" % sorted(o["files"])
        return None
    # output to a file next to the operand
    src, dst = ("data.bz2", "data") if dec else ("data", "data.bz2")
    if o["out"]:
        return "wrote %d bytes to stdout although the destination is a file" % len(o["out"])
    if dst not in o["files"] or not good(o["files"][dst]):
        return "output file %s missing or wrong" % dst
    if keep != (src in o["files"]):
        return "input file %s after the run (keep=%s)" % ("present" if src in o["files"] else "removed", keep)
    return None


def make_eval(exe):
    def ev(case, stats):
        import random
        r = random.Random(case["seed"])
        atoms = list(case["atoms"])
        dec, out, level, keep, test = model(case["name"], atoms)
        if case["test_last"] and "c" not in atoms and out != "stdout":
            atoms.append("t")
            dec, out, level, keep, test = model(case["name"], atoms)
        toks = render(atoms, case["style"])
        # split tokens: first a tokens -> LBZIP2, next b -> BZIP2, next c -> BZIP, rest -> command line
        a, b, c = case["env_split"]
        a = min(a, len(toks))
        b = min(b, len(toks) - a)
        c = min(c, len(toks) - a - b)
        env_toks = [toks[:a] or None, toks[a:a + b] or None, toks[a + b:a + b + c] or None]
        cmd = toks[a + b + c:]
        plain = (b"invocation test %d\n" % case["seed"]) * (1 + case["seed"] % 50) + r.randbytes(case["seed"] % 300)
        z = bz2.compress(plain, 1 + case["seed"] % 9)
        operand = case["operand"]
        tail = ["--"] if case["dashdash"] else []
        with core.TempDir() as td:
            o1 = run_once(exe, case["name"], env_toks, cmd + tail, case["sep"], operand, dec, td, "r1", plain, z,
                          deco=case.get("envdeco"))
            o2 = run_once(exe, case["name"], [None, None, None], toks + tail, case["sep"], operand, dec, td, "r2", plain, z)
            # insert no-ops between *units* (never between "-n" and its argument)
            units = []
            i = 0
            while i < len(toks):
                if toks[i] == "-n" and i + 1 < len(toks):
                    units.append(toks[i:i + 2])
                    i += 2
                else:
                    units.append([toks[i]])
                    i += 1
            for pos, nz in sorted(case["noops"], reverse=True):
                units.insert(min(pos, len(units)), [nz])
            toks3 = [t for u in units for t in u]
            o3 = run_once(exe, case["name"], [None, None, None], toks3 + tail, case["sep"], operand, dec, td, "r3", plain, z)
            # the ignored letters -q / -s INSIDE short-option clusters (e.g. -dk9 -> -dqk9, -d -> -qd)
            toks4 = list(toks)
            shorts = [i for i, t_ in enumerate(toks4) if t_.startswith("-") and not t_.startswith("--") and len(t_) >= 2
                      and t_[1] != "n" and (i == 0 or toks4[i - 1] != "-n")]
            for which, pos, letters in case.get("inner", []):
                if shorts:
                    i = shorts[which % len(shorts)]
                    body = toks4[i][1:]
                    p_ = pos % (len(body) + 1)
                    toks4[i] = "-" + body[:p_] + letters + body[p_:]
            o4 = run_once(exe, case["name"], [None, None, None], toks4 + tail, case["sep"], operand, dec, td, "r4", plain, z)
        if o1["timeout"] or o2["timeout"] or o3["timeout"] or o4["timeout"]:
            stats.inconclusive += 1
            return None
        bad = check_model(o1, dec, out, level, keep, test, operand, plain, z)
        if bad:
            bad = "model: " + bad
        else:
            for nm, o in (("environment tokens moved to the command line", o2), ("no-op options inserted", o3),
                          ("ignored letters q/s inserted inside option clusters: %r" % toks4, o4)):
                if (o["rc"], o["out"], o["files"]) != (o1["rc"], o1["out"], o1["files"]):
                    bad = "metamorphic (%s): rc %s vs %s, stdout %d vs %d bytes, files %r vs %r" % (
                        nm, o["rc"], o1["rc"], len(o["out"]), len(o1["out"]), sorted(o["files"]), sorted(o1["files"]))
                    break
        nmode = sum(1 for x in atoms if x in ("d", "z", "t"))
        base = case["name"].rsplit("/", 1)[-1]
        nontriv = nmode >= 2 or base not in ("lbzip2",) or (a + b + c) > 0
        labels = ["name=" + base, "decompress" if dec else "compress", "dest=" + ("test" if test else out if operand else "stdout"),
                  "operand" if operand else "stdin"]
        if a + b + c:
            labels.append("env-tokens")
        if sum(1 for t in env_toks if t) >= 2:
            labels.append("env-vars>=2")
        if nmode >= 2:
            labels.append("mode-tokens>=2")
        if any(t.startswith("-") and not t.startswith("--") and len(t) > 2 and not t[1] == "n" for t in toks):
            labels.append("clustered")
        if case["noops"]:
            labels.append("noops-inserted")
        stats.add(core.fp(case["name"], toks, a, b, c, operand), nontriv, labels,
                  {"name": case["name"], "LBZIP2": env_toks[0], "BZIP2": env_toks[1], "BZIP": env_toks[2], "argv": cmd,
                   "operand": operand, "model": {"decompress": dec, "dest": out, "level": level, "keep": keep, "test": test}})
        if bad:
            return dict(case, what=bad, tokens=toks)
        return None
    return ev


def replay_case(case):
    return make_eval(core.build("rel"))(case, core.Stats())


def replay_file(path):
    r = replay_case(core.load_replay(path))
    if r is not None:
        print("VIOLATION property=%s replay=%s" % (PID, path))
        core.log(r["what"])
        return 1
    return 0


def run(tier, seed):
    t0 = time.time()
    exe = core.build("rel")
    n = 1400 if tier == "quick" else 20000
    stats, fails = core.hyp_search(strategy, make_eval(exe), n, seed)
    oc = core.conclude(PID, fails, replay_case)
    core.write_evidence(PID, tier, seed, "exploration", stats, RULE, time.time() - t0,
                        violations=len(oc.violations),
                        assumptions=["-t is generated only after the last -d/-z and never together with -c or a bzcat name "
                                     "(the range the documentation defines)"])
    return oc.rc()
