"""C06 — every conforming bzip2 file is decompressed.

Valid streams come from (a) the choice-tape generator bzkit/bzgen.hpp, which uses every legal freedom of the
format (and never the two documented exceptions), (b) third-party encoders: /usr/bin/bzip2 -1..-9 and libbz2 via
Python on the plaintext families, (c) the valid sample files of the repository.  Each must be accepted by
`lbzip2 -d` (exit 0, empty stderr) and decode to the known plaintext, for several worker counts, schedules and
input/output block sizes."""
import bz2
import glob
import os
import random
import time

from hypothesis import strategies as st

import bzk
import core
import corpus
import lb
import plain
from props import _gen

PID = "C06"
RULE = ("case = (valid file, workers 1/2/4/16, free or serialised PCT/random-walk schedule, input block size, output "
        "buffer size); files: bzgen choice tapes (levels mixed across concatenated streams, empty streams, blocks at any "
        "bit offset, randomised blocks, 2-6 tables of balanced/spine/random shape incl. 20-bit codes, unused tables that "
        "are complete/incomplete/oversubscribed/random, zig-zag delta paths touching 1 and 20, arbitrary start values, "
        "constant/cyclic/random selectors, surplus selectors up to 32767, symbol maps that are supersets, run-length "
        "count bytes 0-255 and split runs, primary index first/last/chosen, blocks at exactly level*100000 incl. one "
        "single run, alphabets 1-256, ignorable trailing data), bzip2 -1..-9 and libbz2 output of the plaintext families, "
        "repository samples; oracle: exit 0, empty stderr, stdout == known plaintext (bzkit and libbz2 agree with it "
        "first, otherwise the case is a harness error); the documented exceptions (used incomplete table, block ending "
        "in 4 equal bytes without count) are never generated; non-trivial = file uses >= 1 freedom that neither bzip2's "
        "nor lbzip2's encoder uses, or comes from a third-party encoder; distinct by (file hash, configuration)")

FREEDOMS = {"bitmap_superset", "code_len_20", "delta_zigzag", "delta_touches_1", "delta_touches_20", "empty_stream",
            "origptr_chosen", "origptr_first", "origptr_last", "randomised_effective", "randomised_short",
            "run_exact_capacity", "selectors_gt18002", "selectors_32767", "surplus_selectors", "table_spine",
            "table_random", "tables_6", "trailing_data", "unused_table_incomplete", "unused_table_oversubscribed",
            "unused_table_random", "fam_runs", "selectors_random", "selectors_cyclic"}

CFG = st.fixed_dictionaries({
    "n": st.sampled_from([1, 1, 2, 4, 16]),
    "sched": _gen.SCHED,
    "ing": st.sampled_from([None, None, None, 4, 8, 64, 4096]),
    "outg": st.sampled_from([None, None, None, 1, 7, 64, 4096]),
})


def strategy(tier):
    def mk():
        return st.fixed_dictionaries({"tape": _gen.TAPE, "big": st.sampled_from([False] * 7 + [True]), "cfg": CFG})
    return mk


def run_cfg(exe, data, cfg, out_len):
    ing, outg = cfg.get("ing"), cfg.get("outg")
    if ing and len(data) // ing > 6000:
        ing = (len(data) // 6000 + 4) // 4 * 4
    if outg and out_len // outg > 6000:
        outg = out_len // 6000 + 1
    return lb.decompress(exe, data, cfg.get("n"), cfg.get("sched"), ing=ing, outg=outg, timeout=300)


def check_file(exe, data, plaintext, cfg, stats, labels, origin, fingerprint_extra=()):
    """Oracle for one (file, configuration).  Returns failure text or None."""
    r = run_cfg(exe, data, cfg, len(plaintext))
    if r.timeout and origin == "regression":
        # the saved input of a repaired hang: three consecutive timeouts (300 s each, the file decodes in well under a
        # second) mean it is back
        if run_cfg(exe, data, cfg, len(plaintext)).timeout and run_cfg(exe, data, cfg, len(plaintext)).timeout:
            return "a conforming file is not decompressed: no exit within 300 s in 3 consecutive runs"
    if r.timeout:
        stats.inconclusive += 1
        return None
    bad = None
    if r.rc != 0:
        bad = "a conforming file was rejected: exit %s, stderr %r" % (r.rc, r.err[:300])
    elif r.err:
        bad = "exit 0 but stderr not empty: %r" % r.err[:300]
    elif r.out != plaintext:
        k = next((i for i in range(min(len(r.out), len(plaintext))) if r.out[i] != plaintext[i]),
                 min(len(r.out), len(plaintext)))
        bad = "decoded bytes differ from the plaintext at offset %d (%d vs %d bytes)" % (k, len(r.out), len(plaintext))
    return bad


def make_eval(exe):
    def ev(case, stats):
        data, plaintext, ginfo = bzk.gen(case["tape"], max_block=4000, allow_big=case["big"])
        info, out = bzk.inspect(data)
        if not info["valid"] or out != plaintext:
            raise core.HarnessError("bzgen produced a file its own inspector rejects: %s" % info["reason"])
        v, lo = bzk.libbz2_verdict(data)
        if v != "valid" or lo != plaintext:
            raise core.HarnessError("libbz2 disagrees with bzgen/bzkit on a generated valid file (tape %s)" % case["tape"].hex())
        if info["incomplete_used"]:
            stats.extra["documented-exception-generated(skipped)"] += 1
            return None
        labs = set(ginfo["labels"])
        used = sorted(labs & FREEDOMS)
        nstreams = ginfo["labels"].get("streams", 0)
        if len([k for k in labs if k.startswith("level")]) >= 2:
            used.append("mixed_levels")
        bad = check_file(exe, data, plaintext, case["cfg"], stats, labs, "bzgen")
        cfg = case["cfg"]
        labels = ["bzgen"] + sorted(labs) + ["workers=%s" % cfg["n"]]
        if cfg["sched"]:
            labels.append("serial-schedule")
        if cfg["ing"]:
            labels.append("small-input-blocks")
        if cfg["outg"]:
            labels.append("small-output-buffers")
        if "randomised_effective" in labs and nstreams == 1 and len(plaintext) > 600000:
            labels.append("randomised block beyond the randomisation table's wrap")
        stats.add(core.fp(data, cfg), bool(used), labels,
                  {"origin": "bzgen", "tape_hex": case["tape"].hex()[:80], "file_len": len(data), "plain_len": len(plaintext),
                   "streams": nstreams, "freedoms": used, "cfg": cfg} if used else None)
        if bad:
            return {"data_hex": data.hex() if len(data) < 300000 else None, "tape_hex": case["tape"].hex(),
                    "big": case["big"], "cfg": cfg, "what": bad, "freedoms": used}
        return None
    return ev


def third_party_items(seed, tier):
    """(description, compressed bytes, plaintext) from bzip2 and libbz2 over the plaintext families."""
    r = random.Random(seed * 17 + 1)
    items = []
    nper = 3 if tier == "quick" else 12
    for level in range(1, 10):
        for k in range(nper):
            size = r.choice([0, 1, 50, 3000, 40000, 150000, 450000] + ([1000000, 2500000] if tier != "quick" else []))
            d = corpus._plain_small(r, max(1, size // 2), size + 2) if size else b""
            if k % 3 == 2:
                # run-heavy: blocks that decode to many output buffers
                d = plain.seg_bytes(("runs", 1 + size // 600, 20, 4, r.randrange(1 << 30)))
            enc = "bzip2" if k % 2 == 0 else "libbz2"
            z = corpus._bzip2(d, level) if enc == "bzip2" else bz2.compress(d, level)
            items.append(("%s-l%d-%dB" % (enc, level, len(d)), z, d))
    # concatenations with different levels, and the repository's valid samples
    for k in range(6 if tier == "quick" else 40):
        parts = [items[r.randrange(len(items))] for _ in range(r.choice([2, 3, 5]))]
        parts = [p for p in parts if len(p[2]) < 200000]
        if parts:
            items.append(("concat:" + "+".join(p[0] for p in parts), b"".join(p[1] for p in parts),
                          b"".join(p[2] for p in parts)))
    # regression input of a repaired finding (F03): thousands of minimal streams whose symbol map spells the block-header
    # pattern -- a conforming file that used to hang the decompressor with 4 or more workers
    dense = bz2.compress(b"BCGIOQSTWZ]^acfgiklo", 9) * 5000
    items.append(("regress:F03-dense", dense, b"BCGIOQSTWZ]^acfgiklo" * 5000))
    for f in sorted(glob.glob(os.path.join(core.REPO, "tests", "*.bz2"))):
        z = open(f, "rb").read()
        info, o = bzk.inspect(z)
        v, lo = bzk.libbz2_verdict(z)
        if info["valid"] and v == "valid" and o == lo and not info["incomplete_used"] and len(o) < 60000000:
            items.append(("repo:" + os.path.basename(f), z, o))
    return items


def make_tp_eval(exe):
    def ev(item, stats):
        (desc, z, d), cfg = item
        bad = check_file(exe, z, d, cfg, stats, set(), "regression" if desc.startswith("regress:") else "third-party")
        labels = ["third-party", desc.split("-")[0].split(":")[0], "workers=%s" % cfg["n"]]
        if cfg["sched"]:
            labels.append("serial-schedule")
        if desc.startswith("repo:"):
            labels.append(desc)
        stats.add(core.fp(z, cfg), len(d) > 0, labels, {"origin": desc[:120], "file_len": len(z), "plain_len": len(d), "cfg": cfg})
        if bad:
            return {"data_hex": z.hex() if len(z) < 300000 else None, "desc": desc, "cfg": cfg, "what": bad,
                    "tp_seed": True}
        return None
    return ev


def tp_cases(seed, tier):
    r = random.Random(seed)
    out = []
    for it in third_party_items(seed, tier):
        for _ in range(2 if tier == "quick" else 4):
            out.append((it, {"n": r.choice([4, 8]) if it[0].startswith("regress:") else r.choice([1, 2, 4, 16]),
                             "sched": None if r.random() < 0.6 else "serial:%d:%s:%d:400" % (r.randrange(10**6), r.choice(["pct", "rw"]), r.randrange(1, 4)),
                             "ing": r.choice([None, None, 4, 64, 4096]) if len(it[1]) < 300000 else None,
                             "outg": r.choice([None, None, 1, 64, 4096]) if len(it[2]) < 300000 else None}))
    return out


def directed_cases(seed, tier):
    """Tapes steered to the upper edge of the format: one level-9 block of 900000 (or a few less) bytes of an order-3
    de Bruijn sequence, i.e. 900001 prefix-coded symbols in 18001 groups -- more than bzip2 (blocks of at most 899981
    bytes) ever produces.  Tape layout follows bzgen.hpp: streams, level, blocks, size class, big flag, distance from
    capacity, de Bruijn flag, rotation; the rest (tables, selectors, delta paths, surplus selectors) is seeded noise."""
    r = random.Random(seed * 7 + 3)
    out = []
    for k in range(4 if tier == "quick" else 24):
        d_idx = [0, 0, 1, 2][k % 4]
        tape = None
        for _ in range(12):     # about every second rotation of the sequence gives exactly 900001 symbols
            cand = bytes([0, 8, 0, 0, 15, d_idx, 1]) + r.randbytes(2) + r.randbytes(400)
            if d_idx or "groups_18001" in bzk.gen(cand, allow_big=True)[2]["labels"]:
                tape = cand
                break
        if tape is None:
            continue
        out.append({"tape": tape, "big": True,
                    "cfg": {"n": [1, 4, 2, 16][k % 4], "sched": None if k % 2 else "serial:%d:pct:2:400" % r.randrange(10**6),
                            "ing": None, "outg": None}, "directed": True})
    # randomised blocks long enough for the 512-entry randomisation table to wrap (first wrap near byte 268000): no
    # encoder in use sets the bit, and generated blocks of a few KB never get past the table's first entries
    want = 2 if tier == "quick" else 12
    for k in range(want * 30):
        if want == 0:
            break
        cand = bytes([0, 8, 0, 0, 15, 1 + k % 2, 1]) + r.randbytes(402)
        _, plain_, gi = bzk.gen(cand, allow_big=True)
        if "randomised_effective" in gi["labels"] and len(plain_) > 600000:
            want -= 1
            out.append({"tape": cand, "big": True, "wrap": True,
                        "cfg": {"n": [1, 4][want % 2], "sched": None, "ing": None, "outg": None}, "directed": True})
    return out


def replay_case(case):
    if case.get("inproc"):
        from props import _inproc
        return _inproc.replay(case)
    exe = core.build("rel")
    st_ = core.Stats()
    if case.get("tape_hex") is not None:
        return make_eval(exe)({"tape": bytes.fromhex(case["tape_hex"]), "big": case["big"], "cfg": case["cfg"]}, st_)
    if case.get("data_hex"):
        z = bytes.fromhex(case["data_hex"])
        info, o = bzk.inspect(z)
        return make_tp_eval(exe)(((case.get("desc", "replay"), z, o), case["cfg"]), st_)
    for it in third_party_items(case.get("seed", 1), case.get("tier", "quick")):
        if it[0] == case.get("desc"):
            return make_tp_eval(exe)((it, case["cfg"]), st_)
    return None


def replay_file(path):
    r = replay_case(core.load_replay(path))
    if r is not None:
        print("VIOLATION property=%s replay=%s" % (PID, path))
        core.log(r["what"])
        return 1
    return 0


def run(tier, seed):
    t0 = time.time()
    exe = core.build("rel")
    s1, f1 = core.pmap_cases(make_tp_eval(exe), tp_cases(seed, tier))
    for f in f1:
        f["seed"], f["tier"] = seed, tier
    s0, f0 = core.pmap_cases(make_eval(exe), directed_cases(seed, tier))
    if not s0.labels.get("randomised block beyond the randomisation table's wrap"):
        raise core.HarnessError("directed tapes no longer reach a long randomised block: update directed_cases() to bzgen.hpp")
    if not s0.labels.get("groups_18001"):
        raise core.HarnessError("directed tapes no longer reach an 18001-group block: update directed_cases() to bzgen.hpp")
    n = 2500 if tier == "quick" else 30000
    stats, fails = core.hyp_search(strategy(tier), make_eval(exe), n, seed)
    stats.merge(s1)
    stats.merge(s0)
    fails = f0 + fails
    # in-process: the same generator feeding parse/retrieve/decode/emit directly (ASan/UBSan, asserts on)
    from props import _inproc
    _inproc.add(stats, fails, "decode_valid", seed + 2, 8000 if tier == "quick" else 300000)
    oc = core.conclude(PID, f1 + fails, replay_case)
    core.write_evidence(PID, tier, seed, "exploration", stats, RULE, time.time() - t0, violations=len(oc.violations),
                        assumptions=["bzgen, bzkit and libbz2 must agree that a generated file is valid and on its plaintext "
                                     "(a disagreement is a harness error, exit 2)",
                                     "the format's legal freedoms are those bzip2 1.0.x's decoder admits; inverse-BWT cycles "
                                     "that no encoder can produce are not generated"])
    return oc.rc()
