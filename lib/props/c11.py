"""C11 — schedulers are deadlock-free, bounded and order-preserving.

The REAL scheduler runs under the owned-schedule runtime (one thread at a
time, seeded chooser: random walk / PCT / round robin).  A state with no
runnable thread is reported by the runtime (exit 97), a step overrun by exit
98, a failed capacity / conservation / order assertion by exit 96."""
import bz2
import os
import time

from hypothesis import strategies as st

import bzk
import core
import corpus
import lb
import plain

PID = "C11"
RULE = ("case = (input shape, workers 1-5/8/16, K schedules); shapes: compression default/--sequential with 0-40 input "
        "chunks, chunks that split in two blocks, empty input; decompression of 1-60 blocks, tiny and run-heavy blocks "
        "with output buffers of 1 byte-900000 bytes (dozens of buffers per block), input blocks of 4 bytes-256 KiB, "
        "floods of spurious block-header candidates, truncated input, -cdf copy; schedules: serialised random walk, "
        "PCT d=1..4 (change points over the step count of a calibration run), round robin, plus perturbed free runs; "
        "oracle: runtime never reports a stuck state / step overrun / failed queue-capacity, slot-conservation or "
        "hand-off-order assertion, exit status and bytes equal the reference; non-trivial = >= 3 threads, >= 1 context "
        "switch and some resource exhausted or reservation escape taken (from the event trace); distinct by "
        "(shape hash, schedule)")

EV_ESCAPES = {"12": "transmit-escape", "13": "emit-escape", "14": "scan-escape", "4": "parser-misrecognised",
              "10": "reorder-bogus", "6": "advance-stale", "7": "beyond-eof", "8": "retriever-redundant",
              "9": "retriever-late", "11": "emit-more(multi-buffer)", "15": "collect-split"}


def shape_strategy(big):
    comp = st.fixed_dictionaries({
        "kind": st.just("compress"),
        "chunks": st.one_of(st.integers(0, 12), st.integers(0, 40 if big else 16)),
        "tail": st.one_of(st.just(0), st.just(0), st.integers(0, 99999)),
        "fam": st.sampled_from(["rand", "text", "expand", "runs", "zeros", "slowhead", "slowhead"]),
        "seq": st.booleans(),
        "seed": st.integers(0, 10**6),
    })
    dec = st.fixed_dictionaries({
        "kind": st.just("decompress"),
        "blocks": st.one_of(st.integers(1, 8), st.integers(1, 60 if big else 24)),
        "fam": st.sampled_from(["tiny", "mid", "runheavy", "flood", "flood-runs", "trunc", "multistream", "dense",
                                "garbage-tail", "exact-size"]),
        "ing": st.sampled_from([None, None, 4, 8, 64, 1024, 65536]),
        "outg": st.sampled_from([None, None, 1, 7, 100, 5000, 100000]),
        "seed": st.integers(0, 10**6),
    })
    cp = st.fixed_dictionaries({
        "kind": st.just("copy"),
        "size": st.sampled_from([0, 1, 3, 4, 5, 65535, 65536, 65540, 131076, 300000]),
        "seed": st.integers(0, 10**6),
    })
    return st.one_of(comp, comp, dec, dec, dec, cp)


def strategy(big):
    def mk():
        return st.fixed_dictionaries({
            "shape": shape_strategy(big),
            "n": st.sampled_from([1, 2, 2, 3, 3, 4, 5, 8, 16]),
            "scheds": st.lists(st.tuples(st.sampled_from(["pct", "pct", "rw", "rw", "rr", "perturb"]),
                                         st.integers(0, 10**6), st.integers(1, 4)).map(list),
                               min_size=4, max_size=6),
            "variant": st.sampled_from(["rel", "rel", "rel", "asan"]),
        })
    return mk


def build_input(exe, sh):
    """Returns (argv_tail, stdin bytes, expect) ; expect = ('bytes', b) | ('decodes-to', b) | ('rc1',)"""
    import random
    r = random.Random(sh["seed"])
    if sh["kind"] == "compress":
        # tail 0: the input is an exact multiple of the chunk size, end of input is found by an extra, empty read()
        n = sh["chunks"] * 100000 + (sh["tail"] if sh["chunks"] or sh["tail"] % 3 else 0)
        fam = sh["fam"]
        if fam == "rand":
            d = r.randbytes(n)
        elif fam == "text":
            d = plain.seg_bytes(("text", n // 5 + 1, sh["seed"]))[:n]
        elif fam == "expand":      # runs of exactly 4: RLE expands by 25% -> every chunk splits
            d = (b"".join(bytes([65 + (i % 7)]) * 4 for i in range(n // 4 + 1)))[:n]
        elif fam == "runs":
            d = plain.seg_bytes(("runs", n // 50 + 1, 20, 5, sh["seed"]))[:n]
        elif fam == "slowhead":
            # one chunk that takes long to compress followed by chunks that take no time: the later blocks are all
            # finished and waiting in the reorder queue while the block next in stream order is still being sorted
            d = (plain.seg_bytes(("lcp", 100000, sh["seed"])) + bytes(max(0, n - 100000)))[:n]
        else:
            d = bytes(n)
        argv = ["-z", "-1"] + (["-u"] if sh["seq"] else [])
        return argv, d, ("decodes-to", d), {}
    if sh["kind"] == "copy":
        d = b"no" + r.randbytes(sh["size"]) if sh["size"] else b""
        d = d[:sh["size"]]
        if d[:3] == b"BZh":
            d = b"x" + d[1:]
        return ["-cdf"], d, ("bytes", d), {}
    fam = sh["fam"]
    nb = sh["blocks"]
    env = {}
    if fam == "tiny":
        parts = [r.randbytes(r.randrange(1, 40)) for _ in range(nb)]
        z = b"".join(bz2.compress(p, 1) for p in parts)     # nb one-block streams
        d = b"".join(parts)
    elif fam == "multistream":
        parts = [plain.seg_bytes(("text", r.randrange(1, 3000), r.randrange(1 << 30))) for _ in range(nb)]
        z = b"".join(bz2.compress(p, r.randrange(1, 10)) for p in parts)
        d = b"".join(parts)
    elif fam in ("flood", "flood-runs"):
        # spurious block-header candidates in every block header (symbol-map planting), some of them
        # complete decodable false blocks that expand to many output buffers
        kind, arg = [("junk", 90), ("hdr_error", 0), ("valid_run", 2000), ("valid_run", 200000),
                     ("magic-alphabet", 0)][sh["seed"] % 5]
        size = min(nb, 30) * 100000 - 5000
        if kind == "magic-alphabet":
            d = corpus.magic_plain(size, sh["seed"], runs=(fam == "flood-runs"))
        else:
            d, _ = corpus.planted_plain(corpus.false_block(kind, arg, sh["seed"]), size, sh["seed"])
        if fam == "flood-runs":
            # many tiny streams: one candidate per ~100 bytes of input
            parts = [d[i:i + 700] for i in range(0, min(len(d), 700 * 4 * nb), 700)]
            if kind != "magic-alphabet":
                parts = [corpus.planted_plain(corpus.false_block(kind, arg, sh["seed"]), 300, sh["seed"] + i)[0]
                         for i in range(4 * nb)]
            z = b"".join(bz2.compress(p, 1) for p in parts)
            d = b"".join(parts)
        else:
            z = bz2.compress(d, 1)
    elif fam == "dense":
        # hundreds of minimal streams whose symbol map spells the block-header pattern: one spurious candidate every
        # ~60 bytes, so the scanners get dozens of speculative blocks ahead of the parser inside one input block and
        # park them in every output slot
        # The candidates must sit in a LATER input block than the one the parser works in (each input block has
        # its own scan job): either > 256 KiB of such streams at the production block size, or smaller input blocks
        # that still hold more candidates than there are output slots (16 per worker).
        al = corpus.magic_alphabet()
        parts = []
        g = [16384, 16384, 16384, 65536, 16384, 16384, 65536, None][sh["seed"] % 8]
        sh = dict(sh, ing=None, dense_granul=g)
        for i in range(4600 if g is None else 25 * nb + 500 if g == 16384 else 2200):
            p = bytearray(al)
            if i % 3:
                r.shuffle(p)
            parts.append(bytes(p) + bytes(r.choices(al, k=r.choice([0, 0, 3, 40]))))
        z = b"".join(bz2.compress(p, 1 + i % 9) for i, p in enumerate(parts))
        d = b"".join(parts)
    elif fam in ("garbage-tail", "exact-size"):
        # a valid stream followed by ignorable garbage that reaches into later input blocks (the parser finishes while
        # the reader is still delivering), or padded so that the input ends exactly at an input-block edge (end of
        # input is then found by an extra, empty read)
        d = plain.seg_bytes(("text", 2000 * min(nb, 10), sh["seed"]))
        z = bz2.compress(d, 1)
        g = sh.get("ing") or 4096
        g = max(g, 256)
        if fam == "garbage-tail":
            # for callers that feed a pipe: stall at the first input-block edge (4 + k*g) behind the end of the valid
            # stream, so that the block in which the parser meets the garbage is delivered and the next one is not
            kk = (len(z) + 8 - 4 + g - 1) // g
            env["VERIF_STALL_AT"] = str(4 + kk * g + r.choice([0, 0, 0, 1, g // 2]))
            z += b"\x00garbage" + r.randbytes(g * r.choice([1, 2, 3, 5]) + r.randrange(g))
        else:
            k = (len(z) - 4 + g - 1) // g + r.choice([0, 1])
            z += b"\x00" * (4 + k * g - len(z))
        sh = dict(sh, ing=None, dense_granul=g)
    elif fam == "runheavy":
        segs = []
        for _ in range(min(nb, 12)):
            segs.append(("run", r.randrange(256), r.choice([300, 5000, 70000, 250000])))
            segs.append(("rand", r.randrange(1, 50), r.randrange(1 << 30)))
        d = plain.materialize(segs)
        z = bz2.compress(d, 1)
    else:   # mid / trunc
        d = plain.seg_bytes(("text", min(nb, 30) * 20000, sh["seed"]))[:min(nb, 30) * 100000 - 777]
        z = bz2.compress(d, 1)
    if sh.get("dense_granul"):
        env["LBZIP2_VERIF_IN_GRANUL"] = str(sh["dense_granul"])
    if sh.get("ing"):
        env["LBZIP2_VERIF_IN_GRANUL"] = str(max(sh["ing"], (len(z) // 5000 + 4) // 4 * 4))
    if sh.get("outg"):
        env["LBZIP2_VERIF_OUT_GRANUL"] = str(max(sh["outg"], len(d) // 5000 + 1))
    if fam == "trunc":
        z = z[:max(5, len(z) * (1 + sh["seed"] % 7) // 8)]
        if sh["seed"] % 2 and len(z) > 300:
            # cut exactly at an input-block edge: the last read() returns 0 bytes, no data block accompanies the end of input
            g = int(env.get("LBZIP2_VERIF_IN_GRANUL", 0)) or 256
            env["LBZIP2_VERIF_IN_GRANUL"] = str(g)
            z = z[:4 + (len(z) - 4) // g * g]
        return ["-d"], z, ("rc1",), env
    return ["-d"], z, ("bytes", d), env


def parse_trace(path):
    labels = set()
    info = {"steps": 0, "switches": 0, "threads": 0, "workers": 0, "final": False}
    try:
        with open(path) as f:
            for line in f:
                w = line.split()
                if not w:
                    continue
                if w[0] == "E" and w[1] in EV_ESCAPES:
                    labels.add(EV_ESCAPES[w[1]])
                elif w[0] == "ZERO":
                    labels.add("zero:" + w[1])
                elif w[0] == "QFULL":
                    labels.add("queue-full:" + w[1])
                elif w[0] == "WORKER":
                    info["workers"] += 1
                elif w[0] == "FINAL":
                    info["final"] = True
                elif w[0] == "END":
                    for kv in w[1:]:
                        k, v = kv.split("=")
                        info[k] = int(v)
                elif w[0] in ("DEADLOCK", "LIVELOCK", "ASSERT"):
                    labels.add(w[0])
    except FileNotFoundError:
        pass
    return labels, info


def judge(r, expect, tinfo):
    if r.rc == 97:
        return "DEADLOCK state reported by the runtime: " + r.err.decode(errors="replace")[:600]
    if r.rc == 98:
        return "step bound exceeded (livelock)"
    if r.rc == 96:
        return "scheduler assertion failed: " + r.err.decode(errors="replace")[:400]
    if r.rc == 95:
        raise core.HarnessError("runtime error: %r" % r.err[:300])
    if r.rc == 99 or (r.rc is not None and r.rc < 0):
        return "crash / sanitizer report rc=%s: %s" % (r.rc, r.err.decode(errors="replace")[:600])
    if expect[0] == "rc1":
        if r.rc != 1:
            return "expected exit 1 on truncated input, got %s" % r.rc
        return None
    if r.rc != 0:
        return "exit status %s: %r" % (r.rc, r.err[:300])
    if r.err:
        return "unexpected stderr %r" % r.err[:200]
    if expect[0] == "bytes" and r.out != expect[1]:
        return "output differs from the reference (%d vs %d bytes)" % (len(r.out), len(expect[1]))
    if expect[0] == "decodes-to":
        try:
            if bz2.decompress(r.out) != expect[1]:
                return "compressed output does not decode to the input"
        except (OSError, ValueError) as e:
            return "compressed output rejected by libbz2: %s" % e
    if not tinfo["final"] and expect[0] != "bytes" or (expect[0] == "bytes" and False):
        pass
    return None


def sched_string(s, est):
    strat, seed, d = s
    if strat == "perturb":
        return "perturb:%d" % seed
    return "serial:%d:%s:%d:%d" % (seed, strat, d, max(50, est))


def make_eval(exes):
    def ev(case, stats):
        exe = exes[case["variant"]]
        argv_tail, data, expect, env0 = build_input(exes["rel"], case["shape"])
        with core.TempDir() as td:
            inp = os.path.join(td, "in")
            with open(inp, "wb") as f:
                f.write(data)
            tr = os.path.join(td, "trace")
            argv = [exe] + argv_tail + ["-n", str(case["n"])]
            # calibration run (also an explored schedule): round robin
            scheds = [["rr", case["scheds"][0][1], 1]] + [list(s) for s in case["scheds"]]
            if case["shape"].get("fam") == "dense":
                scheds = scheds[:3]         # thousands of tasks per run: fewer schedules per input, more inputs
            est = 2000
            fail = None
            for si, s in enumerate(scheds):
                if os.path.exists(tr):
                    os.unlink(tr)
                ss = sched_string(s, est)
                env = dict(env0)
                env["LBZIP2_VERIF_SCHED"] = ss
                env["LBZIP2_VERIF_TRACE"] = tr
                r = core.run(argv, env=env, stdin_file=inp, timeout=120)
                labels, tinfo = parse_trace(tr)
                if si == 0 and tinfo["steps"]:
                    est = tinfo["steps"]
                if r.timeout and not ss.startswith("serial"):
                    # real threads, no exit within 120 s on an input that takes seconds: a hang if it does so three
                    # times in a row (a single slow run is inconclusive)
                    again = [core.run(argv, env=env, stdin_file=inp, timeout=120).timeout for _ in range(2)]
                    if all(again):
                        fail = {"shape": case["shape"], "n": case["n"], "scheds": [list(s)], "est": est,
                                "variant": case["variant"], "sched": ss,
                                "what": "no exit within 120 s in 3 consecutive free-running runs (hang)", "hang": True}
                        break
                if r.timeout:
                    stats.inconclusive += 1
                    continue
                bad = judge(r, expect, tinfo)
                serial = ss.startswith("serial")
                nontriv = (not serial or (tinfo["threads"] >= 3 and tinfo["switches"] >= 1)) and \
                    any(l.startswith(("zero:", "queue-full:")) or l.endswith("-escape") for l in labels)
                lab = sorted(labels) + [case["shape"]["kind"], "workers=%d" % case["n"], "sched=" + s[0],
                                        case["variant"]]
                if case["shape"].get("fam"):
                    lab.append("fam=" + case["shape"]["fam"])
                stats.add(core.fp(case["shape"], case["n"], ss), nontriv, lab,
                          {"shape": case["shape"], "n": case["n"], "sched": ss, "steps": tinfo["steps"],
                           "switches": tinfo["switches"], "events": sorted(labels)} if nontriv else None)
                if bad:
                    fail = {"shape": case["shape"], "n": case["n"], "scheds": [list(s)], "est": est,
                            "variant": case["variant"], "sched": ss, "what": bad}
                    break
            if fail is None and len(data) > 0:
                fail = late_close(argv, data, env0, expect, case, stats)
        return fail
    return ev


def late_close(argv, data, env0, expect, case, stats):
    """Free-running, input through a pipe whose writer delivers everything and closes 250 ms later: end of input then
    reaches the reader thread while the workers are idle (with a regular file some worker is always still busy).  A
    lost wake-up shows as a process that never exits; three consecutive 40 s timeouts on these small inputs count."""
    def once():
        return core.run_fed(argv, data, [(len(data), 250)], env=dict(env0), timeout=40)
    r = once()
    labels = [case["shape"]["kind"], "late-close-pipe", "workers=%d" % case["n"]]
    if len(data) % 100000 == 0 or case["shape"].get("fam") in ("exact-size", "trunc"):
        labels.append("input-ends-at-a-chunk-edge")
    stats.add(core.fp(case["shape"], case["n"], "late-close"), True, labels, None)
    if r.timeout:
        if once().timeout and once().timeout:
            return {"shape": case["shape"], "n": case["n"], "scheds": [], "est": 0, "variant": case["variant"],
                    "sched": "late-close", "hang": True, "what": "no exit within 40 s in 3 consecutive runs: the input pipe was closed 250 ms "
                    "after the last byte (lost wake-up at end of input?)"}
        stats.inconclusive += 1
        return None
    bad = judge(r, expect, {"final": True})
    if bad:
        return {"shape": case["shape"], "n": case["n"], "scheds": [], "est": 0, "variant": case["variant"],
                "sched": "late-close", "what": "late-close pipe: " + bad}
    return None


def replay_case(case):
    if case.get("sched") == "late-close":
        exes = core.build_many(["rel", "asan"])
        argv_tail, data, expect, env0 = build_input(exes["rel"], case["shape"])
        return late_close([exes[case["variant"]]] + argv_tail + ["-n", str(case["n"])], data, env0, expect, case, core.Stats())
    exes = core.build_many(["rel", "asan"])
    exe = exes[case["variant"]]
    argv_tail, data, expect, env0 = build_input(exes["rel"], case["shape"])
    with core.TempDir() as td:
        inp = os.path.join(td, "in")
        with open(inp, "wb") as f:
            f.write(data)
        env = dict(env0)
        env["LBZIP2_VERIF_SCHED"] = case["sched"]
        env["LBZIP2_VERIF_TRACE"] = os.path.join(td, "trace")
        r = core.run([exe] + argv_tail + ["-n", str(case["n"])], env=env, stdin_file=inp, timeout=120)
        if r.timeout and "hang" in case.get("what", ""):
            return dict(case)
        if r.timeout:
            return None
        labels, tinfo = parse_trace(env["LBZIP2_VERIF_TRACE"])
        bad = judge(r, expect, tinfo)
    if bad:
        return dict(case, what=bad)
    return None


def replay_file(path):
    r = replay_case(core.load_replay(path))
    if r is not None:
        print("VIOLATION property=%s replay=%s" % (PID, path))
        core.log(r["what"])
        return 1
    return 0


def run(tier, seed):
    t0 = time.time()
    exes = core.build_many(["rel", "asan"])
    n = 260 if tier == "quick" else 5000
    stats, fails = core.hyp_search(strategy(tier != "quick"), make_eval(exes), n, seed)
    oc = core.conclude(PID, fails, replay_case)
    core.write_evidence(PID, tier, seed, "exploration", stats, RULE, time.time() - t0,
                        violations=len(oc.violations),
                        assumptions=["serial schedules switch threads only at synchronisation / I/O points: complete for "
                                     "data-race-free programs (C12 checks that premise)",
                                     "randomised schedule search, not exhaustive enumeration; no TLA+ model is built (this "
                                     "task studies generated-input search); termination = no stuck state / step overrun on "
                                     "any explored schedule"])
    return oc.rc()
