"""C08 — no undefined behaviour for any input.

Everything the other checks generate, re-run under instrumentation; the oracle here is only "no AddressSanitizer /
UndefinedBehaviorSanitizer / MemorySanitizer report, no failed assertion, no fatal signal":
 (1) in-process property targets (ASan + UBSan, asserts on) under rapidcheck: encoder, decoder with every suspension
     schedule and exact-size input/output buffers, scanner, prefix codes, BWT;
 (2) libFuzzer campaigns (coverage guided, ASan + UBSan) on the decoder (structure-aware raw bytes) and on the
     encoder->decoder round trip, seeded with the repository's .bz2 samples;
 (3) the whole program built with ASan+UBSan (and MemorySanitizer) over generated compress / decompress / copy runs:
     scheduler input shapes of C11 under owned schedules, generated valid files, catalogue defects and mutated files
     with hook block sizes of 4 bytes ... 256 KiB, short reads/writes."""
import glob
import os
import random
import time

from hypothesis import strategies as st

import bzk
import core
import corpus
import lb
import mutate
import plain
from props import _dec, _gen, _inproc, c11

PID = "C08"
RULE = ("(1) rapidcheck tapes through the in-process targets roundtrip / bwt / collect / prefix / scan / decode_valid / "
        "decode_defect / decode_raw / decode_sym (symbol-level blocks: groups of fifty 20-bit codes, planted headers) built with ASan+UBSan and asserts on (input handed over in exact-size heap buffers of "
        "1..65536 words, output buffers of 1..900000 bytes, so that an over-read or over-write of a buffer edge is reported); "
        "(2) libFuzzer on decode_raw and roundtrip; (3) process level: ASan+UBSan and MSan binaries x {C11 input shapes: "
        "compression default/--sequential with 0-40 chunks, splitting chunks, decompression of tiny / run-heavy / flood / "
        "dense-candidate / truncated inputs, -cdf copy} x workers 1-16 x {free, perturbed, serialised schedules}, and "
        "decompression of bzgen valid files, catalogue defects and mutated files with input blocks of 4..65536 bytes and "
        "output buffers of 1..100000 bytes; compression of LCP-heavy / periodic / run-structured plaintexts (deep sort "
        "recursion); oracle: no sanitizer report, no assertion failure, no fatal signal (exit status 99 / 134 / 139 or a "
        "report on stderr); non-trivial = the case reaches the codec (>= 1 block encoded or block header parsed); "
        "distinct by input/config hash (process level), by tape (in-process), by coverage features (libFuzzer)")

BAD_MARKS = [b"AddressSanitizer", b"runtime error:", b"MemorySanitizer", b"Assertion", b"LeakSanitizer",
             b"UndefinedBehaviorSanitizer"]


def san_verdict(r):
    """None or a description of an instrumentation finding in a core.Res."""
    if r.timeout:
        return None
    if r.rc == 99:
        return "sanitizer report (exit 99): " + _tail(r.err)
    if r.rc is not None and r.rc < 0 and -r.rc in (6, 11, 7, 4, 8):
        return "fatal signal %d: %s" % (-r.rc, _tail(r.err))
    for m in BAD_MARKS:
        if m in r.err:
            return "report on stderr: " + _tail(r.err)
    return None


def _tail(err):
    lines = [l for l in err.decode(errors="replace").splitlines()
             if "ERROR" in l or "runtime error" in l or "SUMMARY" in l or "Assertion" in l or "WARNING: Memory" in l]
    return " | ".join(lines[:4])[:700] or err[-300:].decode(errors="replace")


# ---------------------------------------------------------------- process level

def proc_strategy(nfiles):
    def mk():
        sched = st.one_of(st.none(), st.integers(0, 10**6).map(lambda s: "perturb:%d" % s),
                          st.tuples(st.sampled_from(["pct", "rw", "rr"]), st.integers(0, 10**6), st.integers(1, 3)).map(
                              lambda t: "serial:%d:%s:%d:1500" % (t[1], t[0], t[2])))
        shape = st.fixed_dictionaries({"what": st.just("shape"), "shape": c11.shape_strategy(False),
                                       "n": st.sampled_from([1, 2, 3, 4, 8, 16]), "sched": sched,
                                       "variant": st.sampled_from(["asan", "asan", "asan", "msan"])})
        dec = st.fixed_dictionaries({"what": st.just("decode"),
                                     "src": st.one_of(
                                         st.tuples(st.just("gen"), _gen.TAPE, st.sampled_from([-1, -1, -2])),
                                         st.tuples(st.just("mut"), st.integers(0, nfiles - 1), mutate.op_strategy())),
                                     "n": st.sampled_from([1, 2, 4, 16]), "sched": sched,
                                     "ing": st.sampled_from([None, 4, 8, 12, 64, 1024, 65536]),
                                     "outg": st.sampled_from([None, 1, 3, 64, 4096, 100000]),
                                     "variant": st.sampled_from(["asan", "asan", "asan", "msan"])})
        comp = st.fixed_dictionaries({"what": st.just("compress"), "segs": plain.plaintext(300000),
                                      "level": st.integers(1, 9), "seq": st.booleans(),
                                      "n": st.sampled_from([1, 2, 4, 16]), "sched": sched,
                                      "variant": st.sampled_from(["asan", "asan", "msan"])})
        return st.one_of(shape, dec, dec, comp)
    return mk


def make_proc_eval(exes, files):
    def ev(case, stats):
        exe = exes[case["variant"]]
        labels = [case["what"], case["variant"], "workers=%d" % case["n"]]
        if case["sched"]:
            labels.append("sched=" + case["sched"].split(":")[0])
        env = dict(lb.sched_env(case["sched"]))
        nontriv = True
        with core.TempDir() as td:
            inp = os.path.join(td, "in")
            if case["what"] == "shape":
                sh = dict(case["shape"])
                if sh["kind"] == "compress":
                    sh["chunks"] = min(sh["chunks"], 10)
                if sh["kind"] == "decompress":
                    sh["blocks"] = min(sh["blocks"], 10)
                argv_tail, data, expect, env0 = c11.build_input(exes["rel"], sh)
                env.update(env0)
                labels.append("shape:" + sh["kind"] + ":" + str(sh.get("fam", "")))
                argv = [exe] + argv_tail + ["-n", str(case["n"])]
                nontriv = len(data) > 0
            elif case["what"] == "decode":
                src = case["src"]
                if src[0] == "gen":
                    data, _, ginfo = bzk.gen(src[1], max_block=3000, defect=src[2])
                    labels.append("bzgen:" + ginfo["defect"])
                else:
                    data, tags = mutate.apply(files[src[1] % len(files)], src[2])
                    labels.append("mutated")
                ing, outg = case["ing"], case["outg"]
                if ing and len(data) // ing > 6000:
                    ing = (len(data) // 6000 + 4) // 4 * 4
                if ing:
                    env["LBZIP2_VERIF_IN_GRANUL"] = str(ing)
                    labels.append("small-input-blocks")
                if outg:
                    env["LBZIP2_VERIF_OUT_GRANUL"] = str(max(outg, 1))
                    labels.append("small-output-buffers")
                argv = [exe, "-d", "-n", str(case["n"])]
                nontriv = len(data) > 14
            else:
                data = plain.materialize(case["segs"])
                argv = [exe, "-z", "-%d" % case["level"], "-n", str(case["n"])] + (["-u"] if case["seq"] else [])
                nontriv = len(data) > 0
            with open(inp, "wb") as f:
                f.write(data)
            r = core.run(argv, env=env, stdin_file=inp, timeout=300)
        if r.timeout:
            stats.inconclusive += 1
            return None
        bad = san_verdict(r)
        stats.add(core.fp(case), nontriv, labels,
                  {"what": case["what"], "variant": case["variant"], "n": case["n"], "sched": case["sched"],
                   "input_len": len(data), "rc": r.rc})
        if bad:
            c = dict(case)
            if isinstance(c.get("src"), (list, tuple)) and c["src"][0] == "gen":
                c["src"] = ["gen_hex", c["src"][1].hex(), c["src"][2]]
            c["what_failed"] = bad
            c["what_"] = bad
            return c
        return None
    return ev


def _norm(case):
    c = dict(case)
    if isinstance(c.get("src"), list) and c["src"][0] == "gen_hex":
        c["src"] = ("gen", bytes.fromhex(c["src"][1]), c["src"][2])
    return c


def replay_case(case):
    if case.get("inproc"):
        return _inproc.replay(case)
    exes = core.build_many(["rel", "asan", "msan"])
    files = corpus.build(exes["rel"], case.get("seed", 1), 6)
    r = make_proc_eval(exes, files)(_norm({k: v for k, v in case.items() if k not in ("what_failed", "what_", "seed")}), core.Stats())
    if r is not None:
        r["what"] = r["what_failed"]
    return r


def replay_file(path):
    r = replay_case(core.load_replay(path))
    if r is not None:
        print("VIOLATION property=%s replay=%s" % (PID, path))
        core.log(r.get("what") or r.get("what_failed"))
        return 1
    return 0


def only_crashes(res):
    """In-process failures that are instrumentation findings (a falsified semantic property is other checks' business)."""
    out = []
    for f in res["fails"]:
        if "crash / sanitizer report" in f["what"]:
            out.append(f)
    return out


def run(tier, seed):
    t0 = time.time()
    stats = core.Stats()
    fails = []
    quick = tier == "quick"
    # (1) in-process, rapidcheck
    budget = {"roundtrip": 12000, "bwt": 10000, "collect": 60000, "prefix": 1500, "scan": 60000, "decode_valid": 5000,
              "decode_defect": 2000, "decode_raw": 25000, "decode_sym": 20000}
    for prop, n in budget.items():
        res = _inproc.run_target(prop, seed + 40, n if quick else n * 25)
        _inproc.merge_into(stats, res, "inproc:%s:" % prop)
        for i in range(res["nontrivial"]):
            stats.nontrivial.add(("inproc", prop, i))
        fails += only_crashes(res)
        stats.extra["semantic-failures-seen(reported by the owning check)"] += len(res["fails"]) - len(only_crashes(res))
    # (2) libFuzzer
    with core.TempDir(prefix="vfseed") as sd:
        k = 0
        for f in sorted(glob.glob(os.path.join(core.REPO, "tests", "*.bz2"))):
            z = open(f, "rb").read()
            if len(z) < 3000:
                with open(os.path.join(sd, "s%03d" % k), "wb") as o:
                    o.write(bytes([0, 0, 0, 0, 0, 0]) + z)       # schedule prefix + raw mode 0
                k += 1
        for prop, secs in (("decode_raw", 25 if quick else 600), ("roundtrip", 15 if quick else 300)):
            fz = _inproc.fuzz(prop, seed, runs=100000000, max_len=3000, seeds_dir=sd if prop == "decode_raw" else None,
                              max_total_time=secs)
            stats.evaluations += fz["execs"]
            stats.extra["libfuzzer:%s:execs" % prop] += fz["execs"]
            stats.extra["libfuzzer:%s:corpus" % prop] += fz.get("corpus", 0)
            stats.extra["libfuzzer:%s:features" % prop] += fz.get("features", 0)
            for i in range(fz.get("corpus", 0)):
                stats.nontrivial.add(("libfuzzer", prop, i))
            fails += fz["crashes"]
    # (3) process level
    exes = core.build_many(["rel", "asan", "msan"])
    files = corpus.build(exes["rel"], seed, 6 if quick else 30)
    s3, f3 = core.hyp_search(proc_strategy(len(files)), make_proc_eval(exes, files), 300 if quick else 5000, seed,
                             shrink=True)
    for f in f3:
        f["seed"] = seed
        f["what"] = f["what_failed"]
    stats.merge(s3)
    oc = core.conclude(PID, fails + f3, replay_case)
    core.write_evidence(PID, tier, seed, "exploration", stats, RULE, time.time() - t0, violations=len(oc.violations),
                        assumptions=["sanitizers see executed paths only", "MSan: the program is plain C and links no "
                                     "uninstrumented library besides libc, whose interceptors MSan provides",
                                     "semantic (non-crash) failures of the in-process properties are reported by the checks "
                                     "that own those properties, not here"])
    return oc.rc()
