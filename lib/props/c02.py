"""C02 — compressed output is a strictly well-formed bzip2 stream."""
import bz2
import subprocess
import time

import core
import lb
import plain
from props import _enc

PID = "C02"
RULE = ("case = (plaintext segments incl. capacity-boundary families, level, --sequential?, workers, schedule); "
        "the compressed stream is parsed bit by bit by bzkit (independent strict inspector) and decoded by libbz2 "
        "(Python bz2 and, for a share of cases, /usr/bin/bzip2); non-trivial = stream with >= 1 non-empty block; "
        "distinct by (input hash, level, mode); plus 2-4 operands compressed by ONE invocation (FILE operands with -k, or -c), "
        "each resulting stream judged on its own")
K20 = 1 << 20


def check_stream(data, level, raw, info, out):
    """Returns None or a description of the first violated clause."""
    if not info["valid"]:
        return "strict inspector rejects the stream: %s at bit %d" % (info["reason"], info["err_bit"])
    if out != data:
        return "strict reference decoding differs from the input"
    try:
        if bz2.decompress(raw) != data:
            return "libbz2 decodes to different bytes"
    except (OSError, ValueError) as e:
        return "libbz2 rejects the stream: %s" % e
    if info["trailing_len"]:
        return "bytes after the last stream"
    if info["incomplete_used"] or info["oversub_used"]:
        return "a used table is not complete"
    if not info["streams"]:
        return "no stream"
    for s in info["streams"]:
        if s["level"] != level:
            return "header digit %d, level %d" % (s["level"], level)
        for b in s["blocks"]:
            if b["nblock"] > level * 100000:
                return "block holds %d run-length-encoded bytes" % b["nblock"]
            if b["nblock"] == 0:
                return "empty block"
            if b["rand"]:
                return "randomised block"
            if not (b["orig_ptr"] < b["nblock"]):
                return "primary index outside the block"
            if not (2 <= b["n_groups"] <= 6):
                return "%d tables" % b["n_groups"]
            if b["n_sel_decl"] > 18002:
                return "%d selectors" % b["n_sel_decl"]
            if b["n_sel_decl"] < b["n_sel_used"]:
                return "fewer selectors than groups"
            for ti, t in enumerate(b["tables"]):
                if t["kraft"] != K20:
                    return "table %d (%s) is not complete: kraft %d/2^20" % (
                        ti, "used" if t["used"] else "unused", t["kraft"])
                if t["min_seen"] < 1 or t["max_seen"] > 20 or not (1 <= t["start"] <= 20):
                    return "table %d code length path leaves 1..20" % ti
    return None


def labels_of(info):
    ls = set()
    bl = _enc.blocks_of(info)
    if len(bl) >= 2:
        ls.add("blocks>=2")
    if len(bl) == 0:
        ls.add("no-block")
    for b in bl:
        ls.add("tables=%d" % b["n_groups"])
        if sum(1 for t in b["tables"] if t["used"]) == 1:
            ls.add("single-used-table(dummy second)")
        if b["n_sel_decl"] > b["n_sel_used"]:
            ls.add("padding-selector")
        t0 = b["tables"][0]
        ls.add("padding-delta-bits=%d" % (2 * abs(t0["start"] - t0["len0"])))
        if b["n_sel_decl"] >= 18001:
            ls.add("selectors>=18001")
        if b["n_sel_decl"] == 18002:
            ls.add("selectors=18002")
        mx = max(t["max_len"] for t in b["tables"])
        if mx >= 17:
            ls.add("maxlen>=17")
        if mx == 20:
            ls.add("maxlen=20")
        ls.add("bitpos%%8=%d" % (b["bit"] % 8))
    return ls


def make_eval(exe):
    def ev(case, stats):
        data, r, info, out = _enc.compress_and_inspect(exe, case, lens=False)
        if r.timeout:
            stats.inconclusive += 1
            return None
        bad = None
        if info is None:
            bad = "compressor failed rc=%s err=%r" % (r.rc, r.err[:200])
            labels = []
            nb = 0
        else:
            bad = check_stream(data, case["level"], r.out, info, out)
            labels = sorted(labels_of(info))
            nb = len(_enc.blocks_of(info))
            if bad is None and core.fp(data) [-1] in "01":  # 1/8 of the cases also through the bzip2 program
                p = subprocess.run(["/usr/bin/bzip2", "-dc"], input=r.out, stdout=subprocess.PIPE, stderr=subprocess.PIPE)
                labels.append("bzip2-program")
                if p.returncode != 0 or p.stdout != data:
                    bad = "/usr/bin/bzip2 -dc rc=%d or different bytes" % p.returncode
        labels += ["level%d" % case["level"], "seq" if case["seq"] else "par", lb.size_class(len(data))]
        stats.add(core.fp(data, case["level"], case["seq"]), nb >= 1, labels,
                  {"segs": case["segs"][:3], "len": len(data), "level": case["level"], "seq": case["seq"],
                   "blocks": nb})
        if bad:
            f = dict(case)
            f["what"] = bad
            return f
        return None
    return ev


def make_multi_eval(exe):
    """Several operands in ONE invocation (FILE operands with -k, or -c): every stream written must be well-formed on
    its own -- state that survives from one operand to the next (stream CRC accumulator, encoder state, sequential-mode
    leftovers) shows up in the second and later streams only."""
    import os
    import bzk

    def ev(case, stats):
        datas = [plain.materialize(sg) for sg in case["files"]]
        with core.TempDir() as td:
            names = []
            for i, d in enumerate(datas):
                with open(os.path.join(td, "f%d" % i), "wb") as f:
                    f.write(d)
                names.append("f%d" % i)
            argv = [exe, "-z", "-%d" % case["level"], "-n", str(case["n"])] + (["-u"] if case["seq"] else [])
            argv += ["-c"] if case["to_stdout"] else ["-k"]
            r = core.run(argv + names, cwd=td, env=lb.sched_env(case["sched"]), timeout=180)
            if r.timeout:
                stats.inconclusive += 1
                return None
            bad = None
            if r.rc != 0 or r.err:
                bad = "compressor failed rc=%s err=%r" % (r.rc, r.err[:200])
            else:
                if case["to_stdout"]:
                    # the concatenation: split it with the inspector, then judge each stream on its own
                    info, out = bzk.inspect(r.out)
                    if not info["valid"] or len(info["streams"]) != len(datas):
                        bad = "-c output of %d operands: %s (%d streams)" % (len(datas), info["reason"], len(info["streams"]))
                    outs = []
                    if not bad:
                        for st_ in info["streams"]:
                            outs.append(r.out[st_["bit"] // 8:st_["end_byte"]])
                else:
                    outs = [open(os.path.join(td, n + ".bz2"), "rb").read() for n in names]
                if not bad:
                    for i, (d, z) in enumerate(zip(datas, outs)):
                        info, out = bzk.inspect(z)
                        why = check_stream(d, case["level"], z, info, out)
                        if why:
                            bad = "operand %d of %d: %s" % (i + 1, len(datas), why)
                            break
        stats.add(core.fp(datas, case["level"], case["seq"], case["to_stdout"]), len(datas) >= 2 and any(datas),
                  ["multi-operand", "operands=%d" % len(datas), "-c" if case["to_stdout"] else "FILE->FILE.bz2",
                   "level%d" % case["level"], "seq" if case["seq"] else "par"],
                  {"operands": [sg[:2] for sg in case["files"]], "level": case["level"], "seq": case["seq"],
                   "to_stdout": case["to_stdout"], "n": case["n"]})
        if bad:
            f = dict(case)
            f["what"] = bad
            f["multi"] = True
            return f
        return None
    return ev


def multi_strategy():
    from hypothesis import strategies as st
    return st.fixed_dictionaries({
        "files": st.lists(plain.plaintext(150000, max_segs=3), min_size=2, max_size=4),
        "level": st.sampled_from([1, 1, 2, 5, 9]), "seq": st.booleans(), "to_stdout": st.booleans(),
        "n": st.sampled_from([1, 2, 4, 16]), "sched": _enc.SCHED,
    })


def fixed_cases(tier):
    """Deterministic boundary cases every run includes."""
    cs = [{"segs": [["debruijn", 97, 900000]], "level": 9, "seq": False, "n": 2, "sched": None},
          {"segs": [["fill", 900000, 7]], "level": 9, "seq": True, "n": 1, "sched": None},
          {"segs": [], "level": 5, "seq": False, "n": 1, "sched": None}]
    for n in (1, 2, 3, 50, 149, 150, 151):
        cs.append({"segs": [["alpha", 3, n, n]], "level": 1, "seq": False, "n": 1, "sched": None})
    return cs


def replay_case(case):
    exe = core.build("rel")
    if case.get("multi"):
        return make_multi_eval(exe)(case, core.Stats())
    return make_eval(exe)(case, core.Stats())


def replay_file(path):
    r = replay_case(core.load_replay(path))
    if r is not None:
        print("VIOLATION property=%s replay=%s" % (PID, path))
        core.log(r["what"])
        return 1
    return 0


def run(tier, seed):
    t0 = time.time()
    exe = core.build("rel")
    n, mt = (1400, 400000) if tier == "quick" else (16000, 3000000)
    ev = make_eval(exe)
    st0, f0 = core.pmap_cases(ev, fixed_cases(tier))
    stats, fails = core.hyp_search(lambda: _enc.case_strategy(mt, boundary_weight=1), ev, n, seed)
    stats.merge(st0)
    s2, f2 = core.hyp_search(multi_strategy, make_multi_eval(exe), 400 if tier == "quick" else 5000, seed + 3)
    stats.merge(s2)
    fails = fails + f2
    oc = core.conclude(PID, f0 + fails, replay_case)
    core.write_evidence(PID, tier, seed, "exploration", stats, RULE, time.time() - t0,
                        violations=len(oc.violations),
                        assumptions=["bzkit implements the bzip2 1.0.x rules correctly (cross-checked against libbz2 on every case)"])
    return oc.rc()
