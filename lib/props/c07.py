"""C07 — damaged input is rejected cleanly."""
import os
import time

import core
import corpus
import lb
import mutate
from props import _dec

PID = "C07"
RULE = ("(a) enumeration: EVERY truncation length and EVERY single-bit flip of every header/metadata field (plus a "
        "seeded sample of payload bits) of generated tiny multi-stream files; (b) Hypothesis: 1-3 field-aware / "
        "byte-level mutations of larger valid files x workers x schedules x input block sizes; each candidate is "
        "classified by bzkit + libbz2 and only INVALID ones are in the domain; oracle: exit status 1, non-empty "
        "stderr naming the program, no signal, no hang; with a FILE operand additionally no output file and the "
        "input untouched; non-trivial = invalid and the damage lies after the 4-byte stream header; distinct by "
        "input hash")
TIMEOUT = 40      # inputs are small: a run takes milliseconds; three consecutive timeouts count as a hang


def judge(r):
    if r.timeout:
        return "timeout"
    if r.rc is not None and r.rc < 0:
        return "killed by signal %d" % -r.rc
    if r.rc != 1:
        return "exit status %s (expected 1); stderr=%r" % (r.rc, r.err[:200])
    if not r.err.strip():
        return "no diagnostic on stderr"
    if b"lbzip2" not in r.err:
        return "diagnostic does not name the program: %r" % r.err[:200]
    return None


def eval_bytes(exe, data, base_plain, case, stats, tag, file_operand=False, tags=()):
    verdict, ref, info = _dec.reference(data)
    if verdict == "disagree":
        stats.extra["oracle-disagreement(skipped)"] += 1
        return None
    if verdict != "invalid":
        stats.add(None, False, ["not-in-domain:" + verdict])
        return None
    hdr_ok = len(data) >= 4 and data[:3] == b"BZh" and 0x31 <= data[3] <= 0x39
    labels = [tag, "reason:" + info["reason"][:40], "workers=%s" % case.get("n")] + ["mut:" + t for t in set(tags)]
    if case.get("sched"):
        labels.append("serial-schedule")
    if case.get("ing"):
        labels.append("small-input-blocks")
    if file_operand:
        labels.append("FILE-operand")
        with core.TempDir() as td:
            p = os.path.join(td, "x.bz2")
            with open(p, "wb") as f:
                f.write(data)
            r = core.run([exe, "-d", "-n", str(case.get("n") or 1), p], timeout=TIMEOUT,
                         env=lb.sched_env(case.get("sched")))
            bad = judge(r)
            if bad is None:
                if os.path.exists(os.path.join(td, "x")):
                    bad = "output file left behind after a failed decompression"
                elif not os.path.exists(p) or open(p, "rb").read() != data:
                    bad = "input file changed or removed"
                elif sorted(os.listdir(td)) != ["x.bz2"]:
                    bad = "unexpected files: %r" % os.listdir(td)
    elif case.get("slow_close"):
        # the writer of the input pipe closes it late (after the workers have gone idle); with 64-byte input blocks a
        # truncation at 4 + 64k bytes makes the final read() return nothing
        labels.append("slow-close-pipe")
        def slow():
            return core.run_fed([exe, "-d", "-n", str(case.get("n") or 2)], data, [(max(1, len(data)), 150)],
                                env={"LBZIP2_VERIF_IN_GRANUL": "64"}, timeout=30)
        r = slow()
        bad = judge(r)
        if bad == "timeout":
            if all(slow().timeout for _ in range(2)):
                bad = "hang: no exit within 30 s in 3 runs (input pipe closed 150 ms after the last byte)"
            else:
                stats.inconclusive += 1
                return None
    else:
        r = _dec.run_lbzip2(exe, data, case)
        bad = judge(r)
    if bad == "timeout":
        # re-run alone twice: a hang must reproduce
        again = [_dec.run_lbzip2(exe, data, case).timeout for _ in range(2)]
        if not all(again):
            stats.inconclusive += 1
            return None
        bad = "hang: no exit within %ds in 3 runs" % TIMEOUT
    stats.add(core.fp(data), hdr_ok, labels,
              {"tag": tag, "len": len(data), "reason": info["reason"], "rc": r.rc,
               "stderr": r.err[:80].decode(errors="replace")} if hdr_ok else None)
    if bad:
        return {"data_hex": data.hex(), "n": case.get("n"), "sched": case.get("sched"), "ing": case.get("ing"),
                "file_operand": file_operand, "what": bad, "reason": info["reason"], "slow_close": case.get("slow_close", False),
                "hang": bad.startswith("hang")}
    return None


def make_enum_eval(exe, files):
    def ev(item, stats):
        fi, kind, a, n = item
        f = files[fi]
        if kind == "trunc":
            data = f["data"][:a]
        else:
            data = corpus.flip_bit(f["data"], a)
        case = {"n": n, "sched": None, "ing": None}
        if kind == "trunc" and a > 4 and (a - 4) % 64 == 0:
            case["slow_close"] = True
        return eval_bytes(exe, data, f["plain"], case, stats, kind, file_operand=(a % 11 == 0) and not case.get("slow_close"))
    return ev


def enum_items(files, seed):
    import random
    r = random.Random(seed)
    items = []
    for fi, f in enumerate(files):
        for n in range(len(f["data"])):
            items.append((fi, "trunc", n, [1, 2, 4][n % 3]))
        for name, bit, width, si, bi in corpus.fields(f["info"]):
            if name == "payload":
                bits = r.sample(range(width), min(width, 40))
            else:
                bits = range(width)
            for k in bits:
                items.append((fi, "flip:" + name, bit + k, [1, 2, 4][k % 3]))
    return items


def make_hyp_eval(exe, files):
    def ev(case, stats):
        f = files[case["file"] % len(files)]
        data, tags = mutate.apply(f, case["ops"])
        return eval_bytes(exe, data, f["plain"], case, stats, "mutated(%d ops)" % len(tags),
                          file_operand=(case["ops"][0][1] % 9 == 0), tags=tags)
    return ev


def replay_case(case):
    exe = core.build("rel")
    st_ = core.Stats()
    data = bytes.fromhex(case["data_hex"])
    return eval_bytes(exe, data, b"", case, st_, "replay", file_operand=case.get("file_operand", False))


def replay_file(path):
    r = replay_case(core.load_replay(path))
    if r is not None:
        print("VIOLATION property=%s replay=%s" % (PID, path))
        core.log(r["what"])
        return 1
    return 0


def fixed_inputs():
    return [b"", b"B", b"BZ", b"BZh", b"BZh0", b"BZhA", b"BZh9", b"BZh1\x17\x72\x45\x38\x50\x90", b"hello world\n",
            b"\x00" * 100, b"BZh9" + b"\x00" * 50, b"BZh91AY&SY", b"\x1f\x8b\x08\x00" + b"\x00" * 20]


def run(tier, seed):
    t0 = time.time()
    exe = core.build("rel")
    tiny = _dec.tiny_files(exe, seed, 3 if tier == "quick" else 30)
    items = enum_items(tiny, seed)
    stats, fails = core.pmap_cases(make_enum_eval(exe, tiny), items)
    # fixed obviously-invalid inputs
    def fx(d, st_):
        return eval_bytes(exe, d, b"", {"n": 2, "sched": None, "ing": None}, st_, "fixed")
    s2, f2 = core.pmap_cases(fx, fixed_inputs())
    stats.merge(s2)
    files = corpus.build(exe, seed, 8 if tier == "quick" else 40)
    n = 1500 if tier == "quick" else 20000
    s3, f3 = core.hyp_search(lambda: _dec.case_strategy(len(files)), make_hyp_eval(exe, files), n, seed)
    stats.merge(s3)
    # generator route: every entry of the bzgen defect catalogue (incl. defects in later streams whose level differs
    # from the first stream's), with and without a FILE operand
    from props import _gen

    def gen_eval(ex, data, c, st_, tags, origin):
        return eval_bytes(ex, data, b"", c, st_, origin + ":" + ",".join(tags)[:40],
                          file_operand=(len(data) % 5 == 0), tags=tags)
    s4, f4 = _gen.run_c05(exe, tier, seed + 11, gen_eval)
    stats.merge(s4)
    oc = core.conclude(PID, fails + f2 + f3 + f4, replay_case)
    core.write_evidence(PID, tier, seed, "fault_enumeration", stats, RULE, time.time() - t0,
                        violations=len(oc.violations),
                        extra={"tiny_files": [f["desc"] for f in tiny], "truncations_exhaustive": True},
                        assumptions=["validity is decided by bzkit and libbz2 together; candidates on which they disagree "
                                     "are skipped and counted", "a timeout must reproduce in 3 runs to count as a hang"])
    return oc.rc()
