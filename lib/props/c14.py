"""C14 — the block-header scanner matches exactly the header pattern.

(1) exhaustive: every entry of the generated automaton tables (48 states x 2 bits, 49 states x 256 bytes) equals the
KMP automaton of 0x314159265359 computed by a reference; (2) generated: lbzip2's scan() on random / planted bit
streams with every entry offset and skip distance against a naive matcher (in-process, rapidcheck)."""
import time

import core
from props import _inproc

PID = "C14"
RULE = ("(1) exhaustive enumeration of all 12640 table entries against an independently computed KMP automaton; (2) "
        "rapidcheck cases = (0-80 input words that are zero / random / all ones / runs of pattern prefixes, 0-3 planted "
        "full or partial patterns at arbitrary bit offsets, 0-31 already buffered bits, skip 0-3000); oracle: a naive "
        "bit-by-bit matcher: OK is returned exactly at the end of pattern + 32 bits of the first occurrence that the skip "
        "distance (rounded up to a word) does not cover and whose 80 bits fit in the block, MORE otherwise with the whole "
        "block consumed, and the bit buffer afterwards holds the following bits; non-trivial = the block contains >= 1 "
        "full occurrence; distinct by case bytes")


def replay_case(case):
    if case.get("dfa"):
        rc, out = _inproc.run_dfa()
        return dict(case, what=out[-600:]) if rc else None
    return _inproc.replay(case)


def replay_file(path):
    r = replay_case(core.load_replay(path))
    if r is not None:
        print("VIOLATION property=%s replay=%s" % (PID, path))
        core.log(r["what"])
        return 1
    return 0


def run(tier, seed):
    t0 = time.time()
    stats = core.Stats()
    fails = []
    rc, out = _inproc.run_dfa()
    stats.evaluations += 12640
    stats.labels["table-entries-checked"] += 12640
    if rc:
        fails.append({"dfa": True, "what": "scanner tables differ from the KMP automaton: " + out[-800:]})
    n = 400000 if tier == "quick" else 12000000
    res = _inproc.run_target("scan", seed, n, max_size=100)
    _inproc.merge_into(stats, res, "")
    fails += res["fails"]
    for i in range(res["nontrivial"]):
        stats.nontrivial.add(("scan", i))
    oc = core.conclude(PID, fails, replay_case)
    core.write_evidence(PID, tier, seed, "exploration", stats, RULE, time.time() - t0, violations=len(oc.violations),
                        extra={"exhaustive_part": "all 12640 automaton table entries"},
                        assumptions=["the skip distance may be rounded up to a whole 32-bit word (at most 31 bits beyond "
                                     "the requested distance); anything skipped beyond that is a missed occurrence",
                                     "distinct_nontrivial is summed over 16 processes with different seeds"])
    return oc.rc()
