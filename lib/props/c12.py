"""C12 — no data races between threads (ThreadSanitizer build, real parallelism, seeded perturbation)."""
import bz2
import os
import time

from hypothesis import strategies as st

import core
import lb
from props import c11

PID = "C12"
RULE = ("case = (input shape as in C11: compression both modes, decompression of tiny / mid / run-heavy / flood / "
        "truncated / multi-stream inputs with small input and output block sizes, -cdf copy; workers 2-16; perturbation "
        "seed) run on a ThreadSanitizer build with real parallelism and seeded yields/sleeps at every hook point; "
        "oracle: no ThreadSanitizer report (exit 66 / 'WARNING: ThreadSanitizer'), exit status as expected; "
        "non-trivial = >= 2 worker threads each ran >= 1 task (event trace); distinct by (shape, workers, seed)")


def strategy(big):
    def mk():
        return st.fixed_dictionaries({
            "shape": c11.shape_strategy(False),
            "n": st.sampled_from([2, 2, 3, 4, 8, 16]),
            "seed": st.integers(0, 10**6),
            "operand": st.booleans(),
        })
    return mk


def make_eval(exe, relexe):
    def ev(case, stats):
        sh = dict(case["shape"])
        if sh["kind"] == "compress":
            sh["chunks"] = min(sh["chunks"], 6)     # TSan is ~10x slower
        if sh["kind"] == "decompress":
            sh["blocks"] = min(sh["blocks"], 8)
        argv_tail, data, expect, env0 = c11.build_input(relexe, sh)
        with core.TempDir() as td:
            inp = os.path.join(td, "in.bz2" if sh["kind"] == "decompress" else "in")
            with open(inp, "wb") as f:
                f.write(data)
            tr = os.path.join(td, "trace")
            env = dict(env0)
            env["LBZIP2_VERIF_SCHED"] = "perturb:%d" % case["seed"]
            env["LBZIP2_VERIF_TRACE"] = tr
            argv = [exe] + argv_tail + ["-n", str(case["n"])]
            # An input that makes a sub-thread call failf() leaves stderr's FILE lock held for good (by design:
            # bailout() never returns).  ThreadSanitizer's _exit() interceptor calls fflush(NULL) and blocks on that
            # lock, so such runs hang *inside the TSan runtime* after lbzip2 has decided to exit.  Race reports are
            # written as they happen, so a short timeout loses nothing.
            tmo = 25 if expect[0] == "rc1" else 600
            fed = None
            if sh.get("fam") in ("garbage-tail", "exact-size", "multistream", "mid") and case["seed"] % 2:
                # standard input is a pipe whose writer stalls in the middle: the reader thread sits in read() -- not
                # on a mutex -- while the workers run ahead (and possibly finish parsing); whatever it touches first
                # after read() returns has no ordering with what the workers did meanwhile
                cut = max(1, len(data) * (1 + case["seed"] % 3) // 4)
                fed = [(cut, 250), (len(data), 0)]
            if env0.get("VERIF_STALL_AT"):
                # stall right after the end of the valid stream: the parser can finish while the reader waits
                fed = [(int(env0["VERIF_STALL_AT"]), 250), (len(data), 0)]
            if fed:
                r = core.run_fed(argv, data, fed, env=env, timeout=tmo)
            elif case["operand"] and sh["kind"] != "copy":
                r = core.run(argv + ["-k", "-c", inp], env=env, timeout=tmo, cwd=td)
            else:
                r = core.run(argv, env=env, stdin_file=inp, timeout=tmo)
            labels, tinfo = c11.parse_trace(tr)
        if r.timeout and expect[0] == "rc1" and b"ThreadSanitizer" not in r.err:
            stats.add(core.fp(sh, case["n"], case["seed"]), tinfo["workers"] >= 2,
                      [sh["kind"], "fam=trunc", "bail-out-path(tsan-exit-flush-hang, no report before it)"])
            return None
        if r.timeout:
            stats.inconclusive += 1
            return None
        bad = None
        if r.rc == 66 or b"ThreadSanitizer" in r.err:
            bad = "ThreadSanitizer report:\n" + r.err.decode(errors="replace")[:2500]
        else:
            bad = c11.judge(r, expect, tinfo)
        stats.add(core.fp(sh, case["n"], case["seed"]), tinfo["workers"] >= 2,
                  [sh["kind"], "workers=%d" % case["n"], "fam=%s" % sh.get("fam", "-"),
                   "tasks-by->=2-workers" if tinfo["workers"] >= 2 else "single-worker-active"] +
                  (["FILE-operand"] if case["operand"] else []) + (["stalling-pipe-input"] if fed else []),
                  {"shape": sh, "n": case["n"], "seed": case["seed"], "workers_active": tinfo["workers"]})
        if bad:
            return dict(case, what=bad)
        return None
    return ev


# ---------------------------------------------------------------- second detector: helgrind
#
# ThreadSanitizer models read()/write() on inherited descriptors as acquire/release of one shared sync object, so a
# reader thread that returns from read(0) is ordered after everything the writer thread did before its last write(1) --
# and through it after the workers.  Unlocked accesses of the reader right after read() are therefore invisible to it.
# Helgrind does not do that.  A few small cases (it is 20-50x slower) run under `valgrind --tool=helgrind` on the
# assert-enabled gcc build, among them the ones where the reader sits in read() on a stalled pipe while the workers
# finish.

def helgrind_cases(seed, tier):
    import random
    r = random.Random(seed * 53 + 7)
    out = []
    k = 3 if tier == "quick" else 30
    for i in range(k):
        out.append({"hg": True, "shape": {"kind": "decompress", "blocks": r.randrange(1, 6), "fam": "garbage-tail",
                                          "ing": r.choice([1024, 4096]), "outg": None, "seed": r.randrange(10**6)},
                    "n": r.choice([2, 3, 4]), "stall": True})
    for i in range(k):
        out.append({"hg": True, "shape": {"kind": "decompress", "blocks": r.randrange(1, 5),
                                          "fam": r.choice(["exact-size", "multistream", "tiny", "flood-runs"]),
                                          "ing": r.choice([None, 1024]), "outg": r.choice([None, 5000]),
                                          "seed": r.randrange(10**6)}, "n": r.choice([2, 3]), "stall": False})
    for i in range(k):
        out.append({"hg": True, "shape": {"kind": "compress", "chunks": r.randrange(1, 4), "tail": r.choice([0, 0, 777]),
                                          "fam": r.choice(["text", "zeros", "rand"]), "seq": bool(i % 2),
                                          "seed": r.randrange(10**6)}, "n": r.choice([2, 3]), "stall": bool(i % 2)})
    for i in range(max(1, k // 2)):
        out.append({"hg": True, "shape": {"kind": "copy", "size": r.choice([5, 65540, 131076, 200000]),
                                          "seed": r.randrange(10**6)}, "n": 2, "stall": False})
    return out


def make_hg_eval(dbgexe, relexe):
    def ev(case, stats):
        sh = case["shape"]
        argv_tail, data, expect, env0 = c11.build_input(relexe, sh)
        env = {k: v for k, v in env0.items()}
        argv = ["/usr/bin/valgrind", "--tool=helgrind", "-q", "--error-exitcode=77", dbgexe] + argv_tail + ["-n", str(case["n"])]
        if case["stall"] and len(data) > 8:
            at = int(env0.get("VERIF_STALL_AT", len(data) // 2))
            r = core.run_fed(argv, data, [(max(1, at), 1500), (len(data), 0)], env=env, timeout=900)
        else:
            with core.TempDir() as td:
                inp = os.path.join(td, "in")
                with open(inp, "wb") as f:
                    f.write(data)
                r = core.run(argv, env=env, stdin_file=inp, timeout=900)
        if r.timeout:
            stats.inconclusive += 1
            return None
        bad = None
        if r.rc == 77 or b"Possible data race" in r.err:
            bad = "helgrind report:\n" + r.err.decode(errors="replace")[:2500]
        elif r.rc is not None and r.rc < 0:
            bad = "killed by signal %d under helgrind: %s" % (-r.rc, r.err[-400:].decode(errors="replace"))
        elif expect[0] != "rc1" and r.rc != 0:
            bad = "exit status %s under helgrind: %r" % (r.rc, r.err[-300:])
        stats.add(core.fp("hg", sh, case["n"], case["stall"]), True,
                  ["helgrind", sh["kind"], "fam=%s" % sh.get("fam", "-"), "workers=%d" % case["n"]] +
                  (["stalling-pipe-input"] if case["stall"] else []),
                  {"detector": "helgrind", "shape": sh, "n": case["n"], "stall": case["stall"]})
        if bad:
            return dict(case, what=bad)
        return None
    return ev


def replay_case(case):
    if case.get("hg"):
        exes = core.build_many(["dbg", "rel"])
        return make_hg_eval(exes["dbg"], exes["rel"])(case, core.Stats())
    exes = core.build_many(["tsan", "rel"])
    return make_eval(exes["tsan"], exes["rel"])(case, core.Stats())


def replay_file(path):
    for _ in range(3 if core.load_replay(path).get("hg") else 10):
        r = replay_case(core.load_replay(path))
        if r is not None:
            print("VIOLATION property=%s replay=%s" % (PID, path))
            core.log(r["what"])
            return 1
    return 0


def run(tier, seed):
    t0 = time.time()
    exes = core.build_many(["tsan", "rel"])
    n = 280 if tier == "quick" else 5000
    stats, fails = core.hyp_search(strategy(False), make_eval(exes["tsan"], exes["rel"]), n, seed, shrink=False)
    dbg = core.build("dbg")
    s2, f2 = core.pmap_cases(make_hg_eval(dbg, exes["rel"]), helgrind_cases(seed, tier))
    stats.merge(s2)
    fails = fails + f2
    oc = core.conclude(PID, fails, replay_case, confirm_runs=10)
    core.write_evidence(PID, tier, seed, "exploration", stats, RULE, time.time() - t0,
                        violations=len(oc.violations),
                        assumptions=["ThreadSanitizer reports races only on accesses that execute in some generated run",
                                     "a report must re-appear within 10 replays of the same case to be printed as a violation"])
    return oc.rc()
