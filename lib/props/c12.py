"""C12 — no data races between threads (ThreadSanitizer build, real parallelism, seeded perturbation)."""
import bz2
import os
import time

from hypothesis import strategies as st

import core
import lb
from props import c11

PID = "C12"
RULE = ("case = (input shape as in C11: compression both modes, decompression of tiny / mid / run-heavy / flood / "
        "truncated / multi-stream inputs with small input and output block sizes, -cdf copy; workers 2-16; perturbation "
        "seed) run on a ThreadSanitizer build with real parallelism and seeded yields/sleeps at every hook point; "
        "oracle: no ThreadSanitizer report (exit 66 / 'WARNING: ThreadSanitizer'), exit status as expected; "
        "non-trivial = >= 2 worker threads each ran >= 1 task (event trace); distinct by (shape, workers, seed)")


def strategy(big):
    def mk():
        return st.fixed_dictionaries({
            "shape": c11.shape_strategy(False),
            "n": st.sampled_from([2, 2, 3, 4, 8, 16]),
            "seed": st.integers(0, 10**6),
            "operand": st.booleans(),
        })
    return mk


def make_eval(exe, relexe):
    def ev(case, stats):
        sh = dict(case["shape"])
        if sh["kind"] == "compress":
            sh["chunks"] = min(sh["chunks"], 6)     # TSan is ~10x slower
        if sh["kind"] == "decompress":
            sh["blocks"] = min(sh["blocks"], 8)
        argv_tail, data, expect, env0 = c11.build_input(relexe, sh)
        with core.TempDir() as td:
            inp = os.path.join(td, "in.bz2" if sh["kind"] == "decompress" else "in")
            with open(inp, "wb") as f:
                f.write(data)
            tr = os.path.join(td, "trace")
            env = dict(env0)
            env["LBZIP2_VERIF_SCHED"] = "perturb:%d" % case["seed"]
            env["LBZIP2_VERIF_TRACE"] = tr
            argv = [exe] + argv_tail + ["-n", str(case["n"])]
            # An input that makes a sub-thread call failf() leaves stderr's FILE lock held for good (by design:
            # bailout() never returns).  ThreadSanitizer's _exit() interceptor calls fflush(NULL) and blocks on that
            # lock, so such runs hang *inside the TSan runtime* after lbzip2 has decided to exit.  Race reports are
            # written as they happen, so a short timeout loses nothing.
            tmo = 25 if expect[0] == "rc1" else 600
            if case["operand"] and sh["kind"] != "copy":
                r = core.run(argv + ["-k", "-c", inp], env=env, timeout=tmo, cwd=td)
            else:
                r = core.run(argv, env=env, stdin_file=inp, timeout=tmo)
            labels, tinfo = c11.parse_trace(tr)
        if r.timeout and expect[0] == "rc1" and b"ThreadSanitizer" not in r.err:
            stats.add(core.fp(sh, case["n"], case["seed"]), tinfo["workers"] >= 2,
                      [sh["kind"], "fam=trunc", "bail-out-path(tsan-exit-flush-hang, no report before it)"])
            return None
        if r.timeout:
            stats.inconclusive += 1
            return None
        bad = None
        if r.rc == 66 or b"ThreadSanitizer" in r.err:
            bad = "ThreadSanitizer report:\n" + r.err.decode(errors="replace")[:2500]
        else:
            bad = c11.judge(r, expect, tinfo)
        stats.add(core.fp(sh, case["n"], case["seed"]), tinfo["workers"] >= 2,
                  [sh["kind"], "workers=%d" % case["n"], "fam=%s" % sh.get("fam", "-"),
                   "tasks-by->=2-workers" if tinfo["workers"] >= 2 else "single-worker-active"] +
                  (["FILE-operand"] if case["operand"] else []),
                  {"shape": sh, "n": case["n"], "seed": case["seed"], "workers_active": tinfo["workers"]})
        if bad:
            return dict(case, what=bad)
        return None
    return ev


def replay_case(case):
    exes = core.build_many(["tsan", "rel"])
    return make_eval(exes["tsan"], exes["rel"])(case, core.Stats())


def replay_file(path):
    for _ in range(10):
        r = replay_case(core.load_replay(path))
        if r is not None:
            print("VIOLATION property=%s replay=%s" % (PID, path))
            core.log(r["what"])
            return 1
    return 0


def run(tier, seed):
    t0 = time.time()
    exes = core.build_many(["tsan", "rel"])
    n = 500 if tier == "quick" else 20000
    stats, fails = core.hyp_search(strategy(False), make_eval(exes["tsan"], exes["rel"]), n, seed, shrink=False)
    oc = core.conclude(PID, fails, replay_case, confirm_runs=10)
    core.write_evidence(PID, tier, seed, "exploration", stats, RULE, time.time() - t0,
                        violations=len(oc.violations),
                        assumptions=["ThreadSanitizer reports races only on accesses that execute in some generated run",
                                     "a report must re-appear within 10 replays of the same case to be printed as a violation"])
    return oc.rc()
