"""C03 — compressed bytes depend only on the input and the options."""
import os
import time

from hypothesis import strategies as st

import core
import lb
import plain
from props import _enc

PID = "C03"
RULE = ("case = one (plaintext, level, --sequential?) and K >= 6 execution contexts drawn from workers 1-16 x "
        "{free-running, perturbed, serialised PCT / random-walk schedule} x {stdin regular file, stdin pipe fed in "
        "generated fragments with pauses} x {read()/write() clamped to seeded short lengths via LD_PRELOAD shim} x "
        "{stdout file, stdout pipe, FILE operand}; oracle (metamorphic): all K outputs byte-identical; non-trivial = "
        ">= 2 blocks, >= 2 distinct worker counts and >= 1 serialised schedule among the contexts; distinct by "
        "(input hash, level, mode)")

CTX = st.fixed_dictionaries({
    "n": st.sampled_from([1, 2, 3, 4, 5, 8, 16]),
    "sched": st.one_of(st.none(),
                       st.integers(0, 10**6).map(lambda s: "perturb:%d" % s),
                       st.tuples(st.sampled_from(["pct", "rw", "rr"]), st.integers(0, 10**6), st.integers(1, 4)).map(
                           lambda t: "serial:%d:%s:%d:600" % (t[1], t[0], t[2]))),
    "stdin": st.one_of(st.just("file"), st.just("file"),
                       st.lists(st.tuples(st.sampled_from([1, 7, 100, 4096, 65536, 99999, 100000, 100001, 1 << 20]),
                                          st.sampled_from([0, 0, 0, 1, 5, 30])), min_size=1, max_size=4)),
    "short": st.one_of(st.none(), st.none(), st.integers(0, 10**6)),
    "out": st.sampled_from(["pipe", "file", "operand"]),
})


def strategy(mt):
    def mk():
        return st.fixed_dictionaries({
            "segs": st.one_of(plain.plaintext(mt), _enc.edge_segs(st.sampled_from([1, 1, 2])).map(lambda t: list(t[1]))),
            "level": st.sampled_from([1, 1, 1, 2, 3, 5, 9]),
            "seq": st.booleans(),
            "ctxs": st.lists(CTX, min_size=5, max_size=7),
        })
    return mk


def run_ctx(exe, shim, data, level, seq, ctx, td):
    """Returns (Res, output bytes)."""
    env = dict(lb.sched_env(ctx["sched"]))
    if ctx["short"] is not None:
        env["LD_PRELOAD"] = shim
        env["IOFAULT"] = "short=%d" % ctx["short"]
    argv = [exe, "-z", "-%d" % level, "-n", str(ctx["n"])]
    if seq:
        argv.append("-u")
    inp = os.path.join(td, "in")
    if ctx["out"] == "operand":
        # FILE operand: in -> in.bz2 next to it (stdin context does not apply)
        outp = inp + ".bz2"
        if os.path.exists(outp):
            os.unlink(outp)
        r = core.run(argv + ["-k", inp], env=env, cwd=td)
        out = open(outp, "rb").read() if os.path.exists(outp) else b""
        if os.path.exists(outp):
            os.unlink(outp)
        return r, out
    outfile = os.path.join(td, "out") if ctx["out"] == "file" else None
    if ctx["stdin"] == "file":
        r = core.run(argv, env=env, stdin_file=inp, stdout_file=outfile)
    else:
        r = core.run_fed(argv, data, ctx["stdin"], env=env, stdout_file=outfile)
    out = r.out
    if outfile:
        out = open(outfile, "rb").read()
    return r, out


def make_eval(exe, shim):
    def ev(case, stats):
        data = plain.materialize(case["segs"])
        with core.TempDir() as td:
            with open(os.path.join(td, "in"), "wb") as f:
                f.write(data)
            base_ctx = {"n": 1, "sched": None, "stdin": "file", "short": None, "out": "pipe"}
            rb, base = run_ctx(exe, shim, data, case["level"], case["seq"], base_ctx, td)
            if rb.timeout:
                stats.inconclusive += 1
                return None
            bad = None
            if rb.rc != 0:
                bad = "baseline context failed rc=%s %r" % (rb.rc, rb.err[:200])
            bad_ctx = None
            if not bad:
                for ctx in case["ctxs"]:
                    r, out = run_ctx(exe, shim, data, case["level"], case["seq"], ctx, td)
                    if r.timeout:
                        stats.inconclusive += 1
                        continue
                    if r.rc != 0:
                        bad, bad_ctx = "context failed rc=%s %r" % (r.rc, r.err[:200]), ctx
                        break
                    if out != base:
                        k = next((i for i in range(min(len(out), len(base))) if out[i] != base[i]), min(len(out), len(base)))
                        bad, bad_ctx = "output differs from the -n1 file->pipe output at byte %d (%d vs %d bytes)" % (
                            k, len(out), len(base)), ctx
                        break
        cap = case["level"] * 100000
        multi = len(data) > cap or plain.rle1_len(data) > cap
        ns = {c["n"] for c in case["ctxs"]} | {1}
        serial = any(c["sched"] and c["sched"].startswith("serial") for c in case["ctxs"])
        labels = [lb.size_class(len(data)), "level%d" % case["level"], "seq" if case["seq"] else "par"]
        if multi:
            labels.append("multi-block")
        for c in case["ctxs"]:
            labels.append("out=" + c["out"])
            labels.append("stdin=file" if c["stdin"] == "file" else "stdin=fragmented-pipe")
            if c["short"] is not None:
                labels.append("short-read-write")
            if c["sched"]:
                labels.append("sched=" + c["sched"].split(":")[0])
        stats.add(core.fp(data, case["level"], case["seq"]), multi and len(ns) >= 2 and serial, labels,
                  {"segs": case["segs"][:3], "len": len(data), "level": case["level"], "seq": case["seq"],
                   "contexts": case["ctxs"][:3]})
        stats.extra["contexts-run"] += len(case["ctxs"]) + 1
        if bad:
            f = dict(case)
            f["ctxs"] = [bad_ctx] if bad_ctx else case["ctxs"]
            f["what"] = bad
            return f
        return None
    return ev


def replay_case(case):
    exe = core.build("rel")
    return make_eval(exe, core.tool("iofault.so"))(case, core.Stats())


def replay_file(path):
    r = replay_case(core.load_replay(path))
    if r is not None:
        print("VIOLATION property=%s replay=%s" % (PID, path))
        core.log(r["what"])
        return 1
    return 0


def run(tier, seed):
    t0 = time.time()
    exe = core.build("rel")
    shim = core.tool("iofault.so")
    n, mt = (260, 400000) if tier == "quick" else (3000, 2000000)
    stats, fails = core.hyp_search(strategy(mt), make_eval(exe, shim), n, seed)
    oc = core.conclude(PID, fails, replay_case, confirm_runs=5)
    core.write_evidence(PID, tier, seed, "exploration", stats, RULE, time.time() - t0,
                        violations=len(oc.violations),
                        assumptions=["pure metamorphic relation: no reference compressor is involved"])
    return oc.rc()
