"""Regenerates /verif/MANIFEST.json from the table below (python3-vt lib/mkmanifest.py)."""
import json
import os

ROOT = os.path.dirname(os.path.dirname(os.path.abspath(__file__)))

# id -> (level category, technique, level text, level note, design ref)
CHECKS = {
    "C01": ("exploration",
            "Hypothesis-generated inputs x configurations x owned schedules; round-trip identity oracle",
            "Randomised search (16 independent Hypothesis searches) over plaintext families built around the "
            "run/block/selector boundaries, all levels, both modes, 1-16 workers and serialised PCT/random-walk "
            "schedules of the real program; every case must round-trip with rc 0 and empty stderr. A universal "
            "claim over inputs and schedules can only be searched, not proved, by this technique.",
            "Trusted: Python, the harness runtime rt/verif_rt.c (serial schedules are legal executions of a "
            "data-race-free program; C12 checks that premise).", "4/C01"),
    "C02": ("exploration",
            "Hypothesis-generated inputs; independent strict stream inspector (bzkit) + libbz2 differential",
            "Every compressed stream of a generated input (all levels, both modes, capacity-boundary families, an 18001-selector "
            "block) is parsed bit by bit by an independent strict inspector that checks each clause of the property (header digit, "
            "block sizes, CRCs, no randomisation, primary index, 2-6 tables all complete incl. unused ones, code length paths in "
            "1-20, <= 18002 selectors, nothing after the last stream) and is decoded by libbz2 and the bzip2 program.",
            "Trusted: bzkit (cross-checked against libbz2 on every case), libbz2 1.0.8.", "4/C02"),
    "C04": ("exploration",
            "Hypothesis-generated run/boundary inputs; independent greedy packing model vs block boundaries recovered from the stream",
            "Per block the consumed input length and run-length-encoded size recovered from the compressed stream must equal an "
            "independent 60-line model of the greedy packing rule, for inputs built to sit on the 4/259 run limits and within +-6 "
            "bytes of the block capacity, in both modes, all levels, several worker counts and schedules.",
            "Trusted: the packing model (self-tested against brute force), bzkit for recovering block sizes.", "4/C04"),
    "C05": ("exploration",
            "mutation- and generator-based fuzzing of the real decompressor; differential against bzkit strict reference + libbz2",
            "Field-aware and byte-level mutations (truncation, boundary values, near-miss trailing headers, re-sealed CRCs) of valid "
            "files from two encoders, and choice-tape streams with catalogue defects, are decompressed by the real program under "
            "several worker counts, schedules and input block sizes; exit 0 must imply that two independent references accept the "
            "input and that the bytes agree.",
            "Trusted: bzkit + libbz2 agreement (candidates on which they disagree are skipped and counted).", "4/C05"),
    "C07": ("fault_enumeration",
            "exhaustive truncation / metadata bit-flip enumeration of generated files + Hypothesis mutations; clean-rejection oracle",
            "For generated tiny multi-stream files every truncation length and every single-bit flip of every metadata field is "
            "tried (exhaustive per file), plus random mutations of larger files; every candidate the references call invalid must "
            "give exit 1, a diagnostic naming the program, no signal, no hang, and with a FILE operand no output file and an "
            "untouched input.", "Trusted: bzkit + libbz2 for the invalid/valid classification.", "4/C07"),
    "C15": ("fault_enumeration",
            "exhaustive single-bit fault enumeration over all stored CRC fields of generated files x worker counts",
            "Every bit of every stored block CRC and stream CRC of generated multi-stream multi-block files (both encoders, "
            "byte-aligned and unaligned blocks) is flipped and the file decompressed with 1/2/4/16 workers and a serialised "
            "schedule; exit status must be 1. Exhaustive per file; files are generated from the seed.",
            "Trusted: bzkit field map for CRC positions.", "4/C15"),
    "C20": ("exploration",
            "Hypothesis-generated inputs; independent package-merge optimum vs every used table recovered from the stream",
            "For every used table of every block of generated streams the total coded length of the symbols coded with it equals "
            "an independent length-limited optimum (package-merge, validated against brute force at each run) under the table's own "
            "maximum length; all lengths <= 20; tables complete.",
            "Trusted: bzkit for per-table symbol counts; the package-merge oracle.", "4/C20"),
}

NOT_YET = "not built yet in this round (planned, see DESIGN.md section 7b)"


def main():
    props = [json.loads(l) for l in open(os.path.join(ROOT, "properties.jsonl"))]
    checks = []
    na = []
    for p in props:
        pid = p["id"]
        if pid in CHECKS and os.path.exists(os.path.join(ROOT, "lib", "props", pid.lower() + ".py")):
            cat, tech, text, note, ref = CHECKS[pid]
            checks.append({
                "property_id": pid,
                "quick_cmd": "./check %s --tier quick" % pid,
                "thorough_cmd": "./check %s --tier thorough" % pid,
                "evidence_file": "/verif/evidence/%s.json" % pid,
                "replay_cmd_template": "./check %s --replay {path}" % pid,
                "engine": "pbt",
                "level_claimed": {"category": cat, "text": text, "design_ref": "DESIGN.md section " + ref},
                "level_note": note,
                "technique": tech,
            })
        else:
            na.append({"property_id": pid, "reason": NOT_YET})
    m = {
        "version": 1,
        "setup_cmd": "./setup.sh",
        "hooks": {
            "guard": "KJN_LBZIP2_VERIF",
            "enable": "checks compile /repo/src/*.c themselves with -DKJN_LBZIP2_VERIF and link /verif/rt/verif_rt.c "
                      "(lib/core.py build()); variants rel/asan/msan/tsan/dbg are cached under /verif/build keyed by a hash "
                      "of the source contents",
            "baseline_off_cmd": "cmake -G Ninja -S /repo -B /repo/_build -DCMAKE_BUILD_TYPE=RelWithDebInfo >/dev/null && "
                                "cmake --build /repo/_build >/dev/null && ctest --test-dir /repo/_build -j8 --timeout 900",
            "source_commits": ["ff348f7", "1feeb33", "d397000"],
            "add_only": True,
        },
        "engines": [
            {"name": "pbt", "path": "/verif/check",
             "serves_properties": [c["property_id"] for c in checks],
             "kind_free_text": "Python driver: Hypothesis / enumeration over generated inputs, schedules and faults against "
                               "explicit oracles; C/C++ helpers: bzkit (independent strict bzip2 reader/writer), rt/verif_rt.c "
                               "(owned-schedule runtime), iofault.so (fault shim), rapidcheck and libFuzzer in-process targets"},
        ],
        "checks": checks,
        "not_applicable": na,
        "notes": "See DESIGN.md. VERIF_SEED selects the search seed (0 -> 1). Exit 2 = harness error (never a verdict).",
    }
    if not na:
        del m["not_applicable"]
    with open(os.path.join(ROOT, "MANIFEST.json"), "w") as f:
        json.dump(m, f, indent=1)
    print("checks:", len(checks), "not_applicable:", len(na))


if __name__ == "__main__":
    main()
