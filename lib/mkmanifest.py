"""Regenerates /verif/MANIFEST.json from the table below (python3-vt lib/mkmanifest.py)."""
import json
import os

ROOT = os.path.dirname(os.path.dirname(os.path.abspath(__file__)))

# id -> (level category, technique, level text, level note, design ref)
CHECKS = {
    "C01": ("exploration",
            "Hypothesis-generated inputs x configurations x owned schedules; round-trip identity oracle",
            "Randomised search (16 independent Hypothesis searches) over plaintext families built around the "
            "run/block/selector boundaries, all levels, both modes, 1-16 workers and serialised PCT/random-walk "
            "schedules of the real program; every case must round-trip with rc 0 and empty stderr. A universal "
            "claim over inputs and schedules can only be searched, not proved, by this technique.",
            "Trusted: Python, the harness runtime rt/verif_rt.c (serial schedules are legal executions of a "
            "data-race-free program; C12 checks that premise).", "4/C01"),
}

NOT_YET = "not built yet in this round (planned, see DESIGN.md section 7b)"


def main():
    props = [json.loads(l) for l in open(os.path.join(ROOT, "properties.jsonl"))]
    checks = []
    na = []
    for p in props:
        pid = p["id"]
        if pid in CHECKS and os.path.exists(os.path.join(ROOT, "lib", "props", pid.lower() + ".py")):
            cat, tech, text, note, ref = CHECKS[pid]
            checks.append({
                "property_id": pid,
                "quick_cmd": "./check %s --tier quick" % pid,
                "thorough_cmd": "./check %s --tier thorough" % pid,
                "evidence_file": "/verif/evidence/%s.json" % pid,
                "replay_cmd_template": "./check %s --replay {path}" % pid,
                "engine": "pbt",
                "level_claimed": {"category": cat, "text": text, "design_ref": "DESIGN.md section " + ref},
                "level_note": note,
                "technique": tech,
            })
        else:
            na.append({"property_id": pid, "reason": NOT_YET})
    m = {
        "version": 1,
        "setup_cmd": "./setup.sh",
        "hooks": {
            "guard": "KJN_LBZIP2_VERIF",
            "enable": "checks compile /repo/src/*.c themselves with -DKJN_LBZIP2_VERIF and link /verif/rt/verif_rt.c "
                      "(lib/core.py build()); variants rel/asan/msan/tsan/dbg are cached under /verif/build keyed by a hash "
                      "of the source contents",
            "baseline_off_cmd": "cmake -G Ninja -S /repo -B /repo/_build -DCMAKE_BUILD_TYPE=RelWithDebInfo >/dev/null && "
                                "cmake --build /repo/_build >/dev/null && ctest --test-dir /repo/_build -j8 --timeout 900",
            "source_commits": ["ff348f7", "1feeb33", "d397000"],
            "add_only": True,
        },
        "engines": [
            {"name": "pbt", "path": "/verif/check",
             "serves_properties": [c["property_id"] for c in checks],
             "kind_free_text": "Python driver: Hypothesis / enumeration over generated inputs, schedules and faults against "
                               "explicit oracles; C/C++ helpers: bzkit (independent strict bzip2 reader/writer), rt/verif_rt.c "
                               "(owned-schedule runtime), iofault.so (fault shim), rapidcheck and libFuzzer in-process targets"},
        ],
        "checks": checks,
        "not_applicable": na,
        "notes": "See DESIGN.md. VERIF_SEED selects the search seed (0 -> 1). Exit 2 = harness error (never a verdict).",
    }
    if not na:
        del m["not_applicable"]
    with open(os.path.join(ROOT, "MANIFEST.json"), "w") as f:
        json.dump(m, f, indent=1)
    print("checks:", len(checks), "not_applicable:", len(na))


if __name__ == "__main__":
    main()
