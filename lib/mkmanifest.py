"""Regenerates /verif/MANIFEST.json from the table below (python3-vt lib/mkmanifest.py)."""
import json
import os

ROOT = os.path.dirname(os.path.dirname(os.path.abspath(__file__)))

# id -> (level category, technique, level text, level note, design ref)
CHECKS = {
    "C01": ("exploration",
            "Hypothesis-generated inputs x configurations x owned schedules; round-trip identity oracle",
            "Randomised search (16 independent Hypothesis searches) over plaintext families built around the "
            "run/block/selector boundaries, all levels, both modes, 1-16 workers and serialised PCT/random-walk "
            "schedules of the real program; every case must round-trip with rc 0 and empty stderr. A universal "
            "claim over inputs and schedules can only be searched, not proved, by this technique.",
            "Trusted: Python, the harness runtime rt/verif_rt.c (serial schedules are legal executions of a "
            "data-race-free program; C12 checks that premise).", "4/C01"),
    "C02": ("exploration",
            "Hypothesis-generated inputs; independent strict stream inspector (bzkit) + libbz2 differential",
            "Every compressed stream of a generated input (all levels, both modes, capacity-boundary families, an 18001-selector "
            "block) is parsed bit by bit by an independent strict inspector that checks each clause of the property (header digit, "
            "block sizes, CRCs, no randomisation, primary index, 2-6 tables all complete incl. unused ones, code length paths in "
            "1-20, <= 18002 selectors, nothing after the last stream) and is decoded by libbz2 and the bzip2 program.",
            "Trusted: bzkit (cross-checked against libbz2 on every case), libbz2 1.0.8.", "4/C02"),
    "C04": ("exploration",
            "Hypothesis-generated run/boundary inputs; independent greedy packing model vs block boundaries recovered from the stream",
            "Per block the consumed input length and run-length-encoded size recovered from the compressed stream must equal an "
            "independent 60-line model of the greedy packing rule, for inputs built to sit on the 4/259 run limits and within +-6 "
            "bytes of the block capacity, in both modes, all levels, several worker counts and schedules.",
            "Trusted: the packing model (self-tested against brute force), bzkit for recovering block sizes.", "4/C04"),
    "C05": ("exploration",
            "mutation- and generator-based fuzzing of the real decompressor; differential against bzkit strict reference + libbz2",
            "Field-aware and byte-level mutations (truncation, boundary values, near-miss trailing headers, re-sealed CRCs) of valid "
            "files from two encoders, and choice-tape streams with catalogue defects, are decompressed by the real program under "
            "several worker counts, schedules and input block sizes; exit 0 must imply that two independent references accept the "
            "input and that the bytes agree.",
            "Trusted: bzkit + libbz2 agreement (candidates on which they disagree are skipped and counted).", "4/C05"),
    "C07": ("fault_enumeration",
            "exhaustive truncation / metadata bit-flip enumeration of generated files + Hypothesis mutations; clean-rejection oracle",
            "For generated tiny multi-stream files every truncation length and every single-bit flip of every metadata field is "
            "tried (exhaustive per file), plus random mutations of larger files; every candidate the references call invalid must "
            "give exit 1, a diagnostic naming the program, no signal, no hang, and with a FILE operand no output file and an "
            "untouched input.", "Trusted: bzkit + libbz2 for the invalid/valid classification.", "4/C07"),
    "C15": ("fault_enumeration",
            "exhaustive single-bit fault enumeration over all stored CRC fields of generated files x worker counts",
            "Every bit of every stored block CRC and stream CRC of generated multi-stream multi-block files (both encoders, "
            "byte-aligned and unaligned blocks) is flipped and the file decompressed with 1/2/4/16 workers and a serialised "
            "schedule; exit status must be 1. Exhaustive per file; files are generated from the seed.",
            "Trusted: bzkit field map for CRC positions.", "4/C15"),
    "C20": ("exploration",
            "Hypothesis-generated inputs; independent package-merge optimum vs every used table recovered from the stream",
            "For every used table of every block of generated streams the total coded length of the symbols coded with it equals "
            "an independent length-limited optimum (package-merge, validated against brute force at each run) under the table's own "
            "maximum length; all lengths <= 20; tables complete.",
            "Trusted: bzkit for per-table symbol counts; the package-merge oracle.", "4/C20"),
    "C03": ("exploration",
            "Hypothesis-generated (input, options) x >= 6 execution contexts (workers, owned schedules, fragmented pipes, "
            "short reads/writes via LD_PRELOAD shim, output modes); metamorphic oracle: all outputs byte-identical",
            "One input is compressed under many execution contexts (1-16 workers; free, perturbed and serialised PCT / "
            "random-walk / round-robin schedules of the real program; stdin as file or as a pipe fed in generated fragments; "
            "read()/write() clamped to seeded short lengths; stdout pipe, stdout file, FILE operand) and every output must be "
            "byte-identical to the -n1 output. Pure metamorphic relation, no reference compressor.",
            "Trusted: rt/verif_rt.c (serial schedules are legal executions), rt/iofault.c (short reads/writes are legal "
            "kernel behaviour).", "4/C03"),
    "C06": ("exploration",
            "choice-tape generator of valid bzip2 files using every legal freedom (Hypothesis-driven) + third-party encoder "
            "output; known-plaintext oracle cross-checked by bzkit and libbz2",
            "Valid files from the bzgen choice-tape generator (mixed levels, empty streams, unaligned and randomised blocks, "
            "2-6 tables of any shape incl. 20-bit codes, arbitrary unused tables, zig-zag delta paths, surplus selectors up to "
            "32767, superset symbol maps, count bytes 0-255, chosen primary index, capacity-exact blocks, trailing data), "
            "bzip2/libbz2 output at every level, concatenations and the repository samples must be accepted (exit 0, empty "
            "stderr) and decode to the known plaintext under several worker counts, schedules and buffer sizes.",
            "Trusted: bzgen/bzkit/libbz2 agreement on every generated file (disagreement = harness error).", "4/C06"),
    "C08": ("exploration",
            "sanitizer-instrumented fuzzing: rapidcheck in-process targets + libFuzzer campaigns (ASan/UBSan, asserts on) + "
            "Hypothesis-generated whole-program runs on ASan/UBSan and MSan builds; oracle: no report / assertion / fatal signal",
            "The codec functions run in-process under ASan+UBSan with asserts on, driven by rapidcheck tapes and libFuzzer "
            "(input in exact-size heap buffers, every suspension schedule), and the whole program built with ASan+UBSan and "
            "with MSan runs generated compress / decompress / copy cases (scheduler shapes, valid, defective and mutated "
            "files, hook block sizes down to 4 bytes, owned schedules). Any sanitizer report, failed assertion or fatal "
            "signal is a violation. Only executed paths are seen.",
            "Trusted: clang 14 sanitizers; the glue's pooled allocator poisons its slots manually.", "4/C08"),
    "C09": ("exploration",
            "Hypothesis-generated (compressed input, valid or mutated) x >= 6 contexts (workers, owned schedules, hook "
            "input/output block sizes, short reads, fragmented pipe, stdout / -c / FILE / -t); metamorphic + reference oracle",
            "One compressed input is decompressed under many contexts; exit status must be the same everywhere; when 0 the "
            "bytes are identical and equal to the bzkit reference, -t writes nothing; when 1 whatever reached stdout is a "
            "prefix of the sequential decoding and a FILE operand leaves no output. Input block sizes down to 4 bytes and "
            "output buffers down to 1 byte suspend the bit-stream decoder and the run-length emitter at every position.",
            "Trusted: bzkit reference; block sizes other than 262144/900000 exist only through the guarded hook.", "4/C09"),
    "C10": ("exploration",
            "generated streams with planted 48-bit block-header patterns (symbol-map planting, trailing data, 256 KiB edges) "
            "x workers x owned schedules; sequential reference decoding as oracle; event trace measures discarded candidates",
            "Files whose block headers, trailing data and input-block edges carry spurious copies of the block-header "
            "pattern (followed by junk, by a header failing at the tables, or by a complete decodable false block) are "
            "decoded under 1-16 workers and serialised PCT / random-walk schedules; status and bytes must equal the "
            "sequential reference decoding. A case counts only when the event trace shows a scanner candidate the parser did "
            "not confirm.", "Trusted: bzkit + libbz2 reference; rt/verif_rt.c; the guarded event hooks.", "4/C10"),
    "C11": ("exploration",
            "owned-schedule exploration (PCT / random walk / round robin) of the real scheduler over generated input shapes; "
            "stuck-state detection, queue-capacity / slot-conservation / hand-off-order assertions, reference output",
            "The real compressor, decompressor and -cdf copy run one thread at a time under a seeded chooser over generated "
            "input shapes (block counts, splitting chunks, multi-buffer outputs, candidate floods, truncation) and 1-16 "
            "workers. A state with no runnable thread, a step overrun, a queue insert beyond capacity, a slot counter out of "
            "range or not restored, or an out-of-order hand-off is a violation; so is wrong output. Randomised search, not "
            "exhaustive; no TLA+ model.", "Trusted: rt/verif_rt.c; C12 for data-race freedom.", "4/C11"),
    "C12": ("exploration",
            "ThreadSanitizer build of the real program over generated inputs/configurations with seeded schedule "
            "perturbation, plus helgrind on a subset (stalled-pipe cases TSan's descriptor model hides); oracle: no race report",
            "Compression (both modes), decompression (valid, flood, truncated), -cdf copy and FILE operands run with 2-16 "
            "workers and real parallelism on a ThreadSanitizer build while the runtime injects seeded yields/sleeps at every "
            "synchronisation and I/O point; any ThreadSanitizer report is a violation. Sees only races on executed accesses.",
            "Trusted: ThreadSanitizer (clang 14).", "4/C12"),
    "C19": ("exploration",
            "Hypothesis-generated near-miss / boundary-size inputs x file or fragmented pipe x workers x schedules; identity "
            "oracle, and differential against plain -cd for header inputs",
            "Inputs that do not begin with BZh1-9 (lengths 0-3, every magic near-miss, sizes around multiples of the 64 KiB "
            "copy buffer, random data) must come out byte for byte with exit 0 and empty stderr, from a file or a pipe fed in "
            "generated fragments, alone on stdin or as several FILE operands; inputs that do begin with a header must behave "
            "exactly as under -cd.", "Trusted: nothing beyond Python and the runtime.", "4/C19"),
    "C22": ("exploration",
            "Hypothesis-generated (invocation name, option token list, environment split, no-op insertions); executable model "
            "of the documented rules + metamorphic relations",
            "Invocation names (incl. paths), short/clustered/long option spellings, -d/-z orderings, level options and "
            "environment-variable placement are generated; the observable behaviour (mode, destination, header digit, exit "
            "status) must match a model written from the man page, moving LBZIP2/BZIP2/BZIP tokens to the front of the "
            "command line must change nothing, and inserting the documented no-op options or --small must change nothing.",
            "Trusted: the model's reading of the man page (usage text and lbzip2.1).", "4/C22"),
    "C13": ("exploration",
            "generated size/worker sweeps with a stalled consumer; measured peak RSS against a fixed linear bound",
            "Bombs, incompressible data, text, candidate floods and planted false blocks are processed at ~3x and ~12x the "
            "capacity of all I/O slots for 1-8 workers while the consumer stalls; peak RSS (measured by /usr/bin/time) must "
            "stay under fixed A + B*workers, and where it grows between the two sizes a 16x run must still be under the bound. "
            "A measured bound on this allocator, not a proof.",
            "Trusted: ru_maxrss as reported by the kernel; constants A, B fixed in the check source.", "4/C13"),
    "C14": ("exploration",
            "exhaustive table check against a reference KMP automaton + rapidcheck-generated bit streams through lbzip2's "
            "scan() (in-process, ASan/UBSan) against a naive matcher",
            "All 12640 entries of the generated scanner tables are compared with an independently computed KMP automaton "
            "of the 48-bit pattern (exhaustive). The scanning routine itself is run in-process on generated blocks (random, "
            "planted full and partial patterns, every entry bit offset, skip distances 0-3000) and must report exactly the "
            "first occurrence not covered by the skip distance whose 80 bits fit, at the exact bit position.",
            "Trusted: the naive matcher; the white-box glue (inproc/glue_misc.c includes parse.c).", "4/C14"),
    "C16": ("fault_enumeration",
            "exhaustive system-call-position fault / signal injection (LD_PRELOAD shim) over FILE-operand scenarios; two-state "
            "file-system invariant as oracle",
            "For compress/decompress x -k x small/multi-block x one/two operands, every position of every data-path system "
            "call is used once as an injection point for an error return and for SIGINT, SIGTERM and SIGKILL (before and "
            "after the call), plus wall-clock signals and a corrupt operand. Afterwards each operand must be in state A "
            "(input intact, no output) or B (complete output, input removed unless -k) with a matching exit status; after "
            "SIGKILL the input is intact unless a complete output exists. Exhaustive per scenario.",
            "Trusted: rt/iofault.c delivers faults exactly at the counted call.", "4/C16"),
    "C17": ("exploration",
            "Hypothesis-generated directory scenarios x flag sets; executable model of the man page as oracle",
            "Operands of type regular/empty/symlink/hard-linked/directory/missing with generated names, suffixes, modes, "
            "nanosecond timestamps and optional pre-existing outputs are processed with generated subsets of -k -c -t -f in "
            "both modes; the resulting directory, output contents and metadata, stdout, exit status and presence of a warning "
            "must equal the prediction of a model written from the manual.",
            "Trusted: the model's reading of man/lbzip2.1; runs as root.", "4/C17"),
    "C18": ("exploration",
            "Hypothesis-generated operand sequences; metamorphic oracle: one invocation over N operands == N single invocations",
            "Sequences of 2-6 operands of mixed kinds (compressible, random, empty, multi-block, skipped, missing, corrupt) "
            "are processed once in a single invocation and once operand by operand in an identical directory; final trees "
            "(bytes, modes, mtimes), -c output and combined exit status must agree, including the stop-at-fatal rule.",
            "Trusted: determinism of compression across invocations (C03).", "4/C18"),
    "C21": ("fault_enumeration",
            "exhaustive read/write-position error injection (LD_PRELOAD shim) + real kernel faults on filter runs; termination "
            "and exit-status oracle",
            "For compress / decompress / -cdf copy filters every read position gets EIO and every write position gets EPIPE, "
            "EFBIG, ENOSPC, EIO (EPIPE also with SIGPIPE ignored); real faults: early-closing reader, /dev/full, RLIMIT_FSIZE. "
            "The process must end (a hang must reproduce three times), with status 1 or death by SIGPIPE/SIGXFSZ where that "
            "is the default action, never status 0, with a diagnostic unless the error is EPIPE/EFBIG. Exhaustive per scenario.",
            "Trusted: rt/iofault.c returns errors the way the kernel does.", "4/C21"),
}

NOT_YET = "not built yet in this round (planned, see DESIGN.md section 7b)"


def main():
    props = [json.loads(l) for l in open(os.path.join(ROOT, "properties.jsonl"))]
    checks = []
    na = []
    for p in props:
        pid = p["id"]
        if pid in CHECKS and os.path.exists(os.path.join(ROOT, "lib", "props", pid.lower() + ".py")):
            cat, tech, text, note, ref = CHECKS[pid]
            checks.append({
                "property_id": pid,
                "quick_cmd": "./check %s --tier quick" % pid,
                "thorough_cmd": "./check %s --tier thorough" % pid,
                "evidence_file": "/verif/evidence/%s.json" % pid,
                "replay_cmd_template": "./check %s --replay {path}" % pid,
                "engine": "pbt",
                "level_claimed": {"category": cat, "text": text, "design_ref": "DESIGN.md section " + ref},
                "level_note": note,
                "technique": tech,
            })
        else:
            na.append({"property_id": pid, "reason": NOT_YET})
    m = {
        "version": 1,
        "setup_cmd": "./setup.sh",
        "hooks": {
            "guard": "KJN_LBZIP2_VERIF",
            "enable": "checks compile /repo/src/*.c themselves with -DKJN_LBZIP2_VERIF and link /verif/rt/verif_rt.c "
                      "(lib/core.py build()); variants rel/asan/msan/tsan/dbg are cached under /verif/build keyed by a hash "
                      "of the source contents",
            "baseline_off_cmd": "/verif/baseline_off.sh",
            "source_commits": ["ff348f7", "1feeb33", "d397000"],
            "add_only": True,
        },
        "engines": [
            {"name": "pbt", "path": "/verif/check",
             "serves_properties": [c["property_id"] for c in checks],
             "kind_free_text": "Python driver: Hypothesis / enumeration over generated inputs, schedules and faults against "
                               "explicit oracles; C/C++ helpers: bzkit (independent strict bzip2 reader/writer), rt/verif_rt.c "
                               "(owned-schedule runtime), iofault.so (fault shim), rapidcheck and libFuzzer in-process targets"},
        ],
        "checks": checks,
        "not_applicable": na,
        "notes": "See DESIGN.md. VERIF_SEED selects the search seed (0 -> 1). Exit 2 = harness error (never a verdict).",
    }
    if not na:
        del m["not_applicable"]
    with open(os.path.join(ROOT, "MANIFEST.json"), "w") as f:
        json.dump(m, f, indent=1)
    print("checks:", len(checks), "not_applicable:", len(na))


if __name__ == "__main__":
    main()
