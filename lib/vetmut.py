"""Vet a seeded change produced by a sub-agent:

    python3-vt lib/vetmut.py CXX N      (reads /tmp/wt_CXX/seeded_out/mutN.diff + demoN.sh + notes.md)

In a scratch worktree of /repo HEAD (outside /repo and /verif): the patch applies, the tree builds with the
project's own build, the unedited test suite passes (1111/1111), the demonstration exits 0 on the clean build and
non-zero on the changed build.  On success the change is stored as /verif/seeded/CXX-mN/{patch.diff,demo.sh,
notes.md,meta.json}.  The scratch worktree and its build output are removed in every case."""
import json
import os
import re
import shutil
import subprocess
import sys
import time

ROOT = os.path.dirname(os.path.dirname(os.path.abspath(__file__)))


def sh(cmd, cwd=None, timeout=3600):
    p = subprocess.run(cmd, shell=True, cwd=cwd, stdout=subprocess.PIPE, stderr=subprocess.STDOUT, timeout=timeout)
    return p.returncode, p.stdout.decode(errors="replace")


def main():
    pid, n = sys.argv[1], sys.argv[2]
    jobs = sys.argv[3] if len(sys.argv) > 3 else "4"
    prefix = sys.argv[4] if len(sys.argv) > 4 else "/tmp/wt_"       # round 2 of sub-agents works in /tmp/w2_CXX
    outn = sys.argv[5] if len(sys.argv) > 5 else n                  # ... and is stored as CXX-m3 / CXX-m4
    src = "%s%s/seeded_out" % (prefix, pid)
    patch = os.path.join(src, "mut%s.diff" % n)
    demo = os.path.join(src, "demo%s.sh" % n)
    name = "%s-m%s" % (pid, outn)
    res = {"id": name, "property": pid, "steps": {}}
    wt = "/tmp/vet_%s" % name
    clean = "/tmp/vet_clean_%s" % name
    sh("git -C /repo worktree remove --force %s; git -C /repo worktree remove --force %s" % (wt, clean))
    ok = False
    try:
        for d in (wt, clean):
            rc, o = sh("git -C /repo worktree add -q --detach %s HEAD" % d)
            if rc:
                raise RuntimeError("worktree: " + o)
        rc, o = sh("git apply --3way %s || git apply %s" % (patch, patch), cwd=wt)
        res["steps"]["apply"] = rc == 0
        if rc:
            raise RuntimeError("patch does not apply: " + o[-500:])
        rc, diff = sh("git diff HEAD -- src", cwd=wt)
        for d in (wt, clean):
            rc, o = sh("cmake -G Ninja -S . -B _build -DCMAKE_BUILD_TYPE=RelWithDebInfo >/dev/null && "
                       "cmake --build _build 2>&1 | tail -5", cwd=d)
            if rc or not os.path.exists(os.path.join(d, "_build", "lbzip2")):
                res["steps"]["build"] = False
                raise RuntimeError("build failed: " + o[-800:])
        res["steps"]["build"] = True
        t = time.time()
        rc, o = sh("ctest --test-dir _build -j%s --timeout 900 2>&1 | tail -6" % jobs, cwd=wt, timeout=7200)
        m = re.search(r"(\d+)% tests passed, (\d+) tests failed out of (\d+)", o)
        res["steps"]["suite"] = bool(m and m.group(2) == "0" and m.group(3) == "1111")
        res["suite_tail"] = o[-300:]
        res["suite_s"] = round(time.time() - t)
        if not res["steps"]["suite"]:
            raise RuntimeError("test suite does not pass with the change")
        shutil.copy(demo, "/tmp/vet_demo_%s.sh" % name)
        rc1, o1 = sh("bash /tmp/vet_demo_%s.sh %s/_build/lbzip2" % (name, clean), cwd=clean, timeout=900)
        rc2, o2 = sh("bash /tmp/vet_demo_%s.sh %s/_build/lbzip2" % (name, wt), cwd=wt, timeout=900)
        res["steps"]["demo_clean_passes"] = rc1 == 0
        res["steps"]["demo_mutant_fails"] = rc2 != 0
        res["demo_clean_tail"] = o1[-400:]
        res["demo_mutant_tail"] = o2[-600:]
        if rc1 != 0 or rc2 == 0:
            raise RuntimeError("demonstration does not discriminate (clean rc=%d, changed rc=%d)" % (rc1, rc2))
        ok = True
        dst = os.path.join(ROOT, "seeded", name)
        os.makedirs(dst, exist_ok=True)
        with open(os.path.join(dst, "patch.diff"), "w") as f:
            f.write(diff)
        shutil.copy(demo, os.path.join(dst, "demo.sh"))
        notes = os.path.join(src, "notes.md")
        if os.path.exists(notes):
            shutil.copy(notes, os.path.join(dst, "notes.md"))
        meta = {"id": name, "breaks_property": pid, "origin": "independent sub-agent given only the property text",
                "needs_to_manifest": "see notes.md (section for mutant %s)" % n,
                "vetted": {"patch_applies_on": sh("git -C /repo rev-parse --short HEAD")[1].strip(),
                           "builds": True, "suite": res["suite_tail"].strip().splitlines()[-3:] if res["suite_tail"] else "",
                           "demo_on_clean_build": "exit 0", "demo_on_changed_build": "exit %d" % rc2,
                           "commands": ["git apply patch.diff", "cmake -G Ninja -S . -B _build && cmake --build _build",
                                        "ctest --test-dir _build -j%s --timeout 900" % jobs,
                                        "bash demo.sh _build/lbzip2"]},
                "caught_by": {}}
        with open(os.path.join(dst, "meta.json"), "w") as f:
            json.dump(meta, f, indent=1)
    except Exception as e:  # noqa
        res["error"] = str(e)
    finally:
        sh("git -C /repo worktree remove --force %s; git -C /repo worktree remove --force %s; rm -f /tmp/vet_demo_%s.sh"
           % (wt, clean, name))
    res["ok"] = ok
    os.makedirs("/tmp/vet", exist_ok=True)
    with open("/tmp/vet/%s.json" % name, "w") as f:
        json.dump(res, f, indent=1)
    print(json.dumps(res)[:1500])
    return 0 if ok else 1


if __name__ == "__main__":
    sys.exit(main())
