"""Shared machinery for the lbzip2 property checks: builds, process runner,
parallel Hypothesis driver, statistics, evidence, replay and known findings.

Everything here is deterministic given (VERIF_SEED, tier, /repo contents).
"""
import collections
import fcntl
import hashlib
import json
import multiprocessing as mp
import multiprocessing.pool
import os
import random
import shutil
import signal
import subprocess
import sys
import tempfile
import time
import traceback

ROOT = os.path.dirname(os.path.dirname(os.path.abspath(__file__)))
REPO = os.environ.get("VERIF_REPO", "/repo")
BUILD = os.path.join(ROOT, "build")
EVID = os.environ.get("VERIF_EVID", os.path.join(ROOT, "evidence"))
REPLAYS = os.environ.get("VERIF_REPLAYS", os.path.join(ROOT, "replays"))
NCPU = int(os.environ.get("VERIF_JOBS", "16"))
GUARD = "KJN_LBZIP2_VERIF"

T0 = time.time()


def log(*a):
    print(*a, file=sys.stderr, flush=True)


def env_seed():
    try:
        s = int(os.environ.get("VERIF_SEED", "0"))
    except ValueError:
        s = 0
    return s if s != 0 else 1


class HarnessError(Exception):
    """Something is wrong with the machinery (not a verdict)."""


# --------------------------------------------------------------------------
# builds

DEFS = ['-DPACKAGE_NAME="lbzip2"', '-DPACKAGE_VERSION="devel"',
        "-D_FILE_OFFSET_BITS=64", "-D_XOPEN_SOURCE=700", "-D" + GUARD]
SRCS = ["compress.c", "crctab.c", "decode.c", "divbwt.c", "encode.c",
        "expand.c", "main.c", "parse.c", "process.c", "signals.c",
        "timespec.c"]

VARIANTS = {
    # behaviour as shipped (baseline flags) + hooks
    "rel": dict(cc="gcc", flags=["-O2", "-g", "-DNDEBUG", "-std=gnu99", "-w"],
                ld=["-lpthread"]),
    # asserts on, ASan + UBSan
    "asan": dict(cc="clang", flags=["-O1", "-g", "-std=gnu99", "-w",
                                    "-fsanitize=address,undefined",
                                    "-fno-sanitize-recover=undefined",
                                    "-fno-omit-frame-pointer"],
                 ld=["-fsanitize=address,undefined", "-lpthread"]),
    "msan": dict(cc="clang", flags=["-O1", "-g", "-std=gnu99", "-w",
                                    "-fsanitize=memory",
                                    "-fsanitize-memory-track-origins",
                                    "-fno-omit-frame-pointer"],
                 ld=["-fsanitize=memory", "-lpthread"]),
    "tsan": dict(cc="clang", flags=["-O1", "-g", "-std=gnu99", "-w",
                                    "-fsanitize=thread",
                                    "-fno-omit-frame-pointer"],
                 ld=["-fsanitize=thread", "-lpthread"]),
    # asserts on, no sanitizer (cheap)
    "dbg": dict(cc="gcc", flags=["-O1", "-g", "-std=gnu99", "-w"],
                ld=["-lpthread"]),
}


def _tree_hash(extra):
    h = hashlib.sha256()
    srcdir = os.path.join(REPO, "src")
    for fn in sorted(os.listdir(srcdir)):
        if fn.endswith((".c", ".h")):
            h.update(fn.encode())
            with open(os.path.join(srcdir, fn), "rb") as f:
                h.update(f.read())
    rtdir = os.path.join(ROOT, "rt")
    for fn in sorted(os.listdir(rtdir)):
        if fn == "verif_rt.c":
            h.update(fn.encode())
            with open(os.path.join(rtdir, fn), "rb") as f:
                h.update(f.read())
    h.update(repr(extra).encode())
    return h.hexdigest()[:16]


def _prune_builds(prefix, keep):
    try:
        ds = [d for d in os.listdir(BUILD) if d.startswith(prefix + "-")]
    except FileNotFoundError:
        return
    ds.sort(key=lambda d: os.path.getmtime(os.path.join(BUILD, d)))
    now = time.time()
    for d in ds[:-keep]:
        # never remove a build that was used recently: another check (another tree) may still be running with it
        if now - os.path.getmtime(os.path.join(BUILD, d)) > 3 * 3600:
            shutil.rmtree(os.path.join(BUILD, d), ignore_errors=True)


def build(variant):
    """Build lbzip2 from the current REPO tree; returns the binary path."""
    v = VARIANTS[variant]
    hsh = _tree_hash((variant, v))
    os.makedirs(BUILD, exist_ok=True)
    out = os.path.join(BUILD, "%s-%s" % (variant, hsh))
    exe = os.path.join(out, "lbzip2")
    if os.path.exists(exe):
        os.utime(out, None)
        return exe
    lockf = open(os.path.join(BUILD, ".lock-" + variant), "w")
    fcntl.flock(lockf, fcntl.LOCK_EX)
    try:
        if os.path.exists(exe):
            return exe
        tmp = out + ".tmp%d" % os.getpid()
        shutil.rmtree(tmp, ignore_errors=True)
        os.makedirs(tmp)
        srcs = [os.path.join(REPO, "src", s) for s in SRCS]
        rt = os.path.join(ROOT, "rt", "verif_rt.c")
        if os.path.exists(rt):
            srcs.append(rt)
        procs = []
        objs = []
        for s in srcs:
            o = os.path.join(tmp, os.path.basename(s)[:-2] + ".o")
            objs.append(o)
            cmd = [v["cc"]] + v["flags"] + DEFS + \
                ["-I", os.path.join(REPO, "src"), "-I", os.path.join(ROOT, "rt"),
                 "-c", s, "-o", o]
            procs.append((cmd, subprocess.Popen(cmd, stdout=subprocess.PIPE,
                                                stderr=subprocess.STDOUT)))
        for cmd, p in procs:
            o, _ = p.communicate()
            if p.returncode != 0:
                raise HarnessError("build failed (%s): %s\n%s" % (
                    variant, " ".join(cmd), o.decode(errors="replace")))
        cmd = [v["cc"]] + objs + v["ld"] + ["-o", os.path.join(tmp, "lbzip2")]
        r = subprocess.run(cmd, stdout=subprocess.PIPE, stderr=subprocess.STDOUT)
        if r.returncode != 0:
            raise HarnessError("link failed (%s): %s" % (variant, r.stdout.decode()))
        for o in objs:
            os.unlink(o)
        os.rename(tmp, out)
        _prune_builds(variant, 3)
        return exe
    finally:
        fcntl.flock(lockf, fcntl.LOCK_UN)
        lockf.close()


def build_many(variants):
    """Build several variants in parallel."""
    with mp.pool.ThreadPool(len(variants)) as tp:
        return dict(zip(variants, tp.map(build, variants)))


def tool(name):
    """Path of a helper built by setup (bzkit, iofault.so, in-process targets)."""
    p = os.path.join(BUILD, "tools", name)
    if not os.path.exists(p):
        r = subprocess.run([os.path.join(ROOT, "setup.sh")], stdout=subprocess.PIPE,
                           stderr=subprocess.STDOUT)
        if not os.path.exists(p):
            raise HarnessError("tool %s missing; setup output:\n%s" % (
                name, r.stdout.decode(errors="replace")[-4000:]))
    return p


# --------------------------------------------------------------------------
# running processes

class Res:
    __slots__ = ("rc", "out", "err", "timeout", "wall")

    def __init__(self, rc, out, err, timeout, wall):
        self.rc, self.out, self.err, self.timeout, self.wall = rc, out, err, timeout, wall

    def sig(self):
        return -self.rc if self.rc is not None and self.rc < 0 else 0

    def brief(self):
        return {"rc": self.rc, "timeout": self.timeout, "out_len": len(self.out or b""),
                "err": (self.err or b"")[:300].decode(errors="replace")}


BASE_ENV = {"PATH": "/usr/bin:/bin", "LC_ALL": "C",
            "ASAN_OPTIONS": "detect_leaks=0:abort_on_error=0:exitcode=99:allocator_may_return_null=1",
            "UBSAN_OPTIONS": "print_stacktrace=1:halt_on_error=1:exitcode=99",
            "MSAN_OPTIONS": "exitcode=99",
            "TSAN_OPTIONS": "exitcode=66:halt_on_error=0:second_deadlock_stack=1"}


def run(argv, stdin=None, env=None, timeout=120, cwd=None, stdin_file=None,
        stdout_file=None, argv0=None, preexec=None):
    """Run a process; stdin is bytes (or None for /dev/null).  Returns Res.
    rc < 0 means death by signal -rc."""
    e = dict(BASE_ENV)
    if env:
        e.update(env)
    t = time.time()
    fin = None
    fout = None
    try:
        if stdin_file is not None:
            fin = open(stdin_file, "rb")
            si = fin
        elif stdin is None:
            si = subprocess.DEVNULL
        else:
            si = subprocess.PIPE
        if stdout_file is not None:
            fout = open(stdout_file, "wb")
            so = fout
        else:
            so = subprocess.PIPE
        p = subprocess.Popen(argv if argv0 is None else [argv0] + list(argv[1:]),
                             executable=argv[0],
                             stdin=si, stdout=so, stderr=subprocess.PIPE, env=e, cwd=cwd,
                             start_new_session=True, preexec_fn=preexec)
        try:
            out, err = p.communicate(stdin if si == subprocess.PIPE else None, timeout=timeout)
            to = False
        except subprocess.TimeoutExpired:
            try:
                os.killpg(p.pid, signal.SIGKILL)
            except ProcessLookupError:
                pass
            out, err = p.communicate()
            to = True
        return Res(p.returncode, out if out is not None else b"", err, to, time.time() - t)
    finally:
        if fin:
            fin.close()
        if fout:
            fout.close()


def run_fed(argv, data, frags, env=None, timeout=180, stdout_file=None, cwd=None):
    """Run argv feeding `data` to its stdin through a pipe in fragments.
    frags: list of (nbytes, pause_ms); the list is cycled; the pipe is closed
    at the end.  Returns Res."""
    import threading
    e = dict(BASE_ENV)
    if env:
        e.update(env)
    t = time.time()
    fout = open(stdout_file, "wb") if stdout_file else None
    p = subprocess.Popen(argv, stdin=subprocess.PIPE, stdout=fout if fout else subprocess.PIPE,
                         stderr=subprocess.PIPE, env=e, cwd=cwd, start_new_session=True)
    outbuf, errbuf = [], []

    def feeder():
        pos = 0
        i = 0
        try:
            while pos < len(data):
                n, pause = frags[i % len(frags)] if frags else (len(data), 0)
                i += 1
                n = max(1, n)
                # bounded cost: at most 25 pauses and 3000 fragments per run, the rest goes in 64 KiB pieces
                if i > 25:
                    pause = 0
                if i > 3000:
                    n = max(n, 65536)
                p.stdin.write(data[pos:pos + n])
                p.stdin.flush()
                pos += n
                if pause:
                    time.sleep(pause / 1000.0)
        except (BrokenPipeError, OSError, ValueError):
            pass
        finally:
            try:
                p.stdin.close()
            except OSError:
                pass

    def reader(f, buf):
        try:
            buf.append(f.read())
        except (OSError, ValueError):
            pass

    ths = [threading.Thread(target=feeder, daemon=True),
           threading.Thread(target=reader, args=(p.stderr, errbuf), daemon=True)]
    if not fout:
        ths.append(threading.Thread(target=reader, args=(p.stdout, outbuf), daemon=True))
    for th in ths:
        th.start()
    to = False
    try:
        p.wait(timeout=timeout)
    except subprocess.TimeoutExpired:
        to = True
        try:
            os.killpg(p.pid, signal.SIGKILL)
        except ProcessLookupError:
            pass
        p.wait()
    for th in ths:
        th.join(timeout=10)
    if fout:
        fout.close()
    return Res(p.returncode, b"".join(outbuf), b"".join(errbuf), to, time.time() - t)


class TempDir:
    def __init__(self, prefix="vf"):
        self.path = tempfile.mkdtemp(prefix=prefix, dir=os.environ.get("VERIF_TMP", "/tmp"))

    def __enter__(self):
        return self.path

    def __exit__(self, *a):
        # restore permissions so rmtree works
        for dp, dn, fn in os.walk(self.path):
            try:
                os.chmod(dp, 0o700)
            except OSError:
                pass
        shutil.rmtree(self.path, ignore_errors=True)


# --------------------------------------------------------------------------
# statistics / evidence

def fp(*parts):
    h = hashlib.blake2b(digest_size=8)
    for p in parts:
        if isinstance(p, (bytes, bytearray)):
            h.update(bytes(p))
        else:
            h.update(repr(p).encode())
        h.update(b"\0")
    return h.hexdigest()


class Stats:
    """Counts evaluations, distinct non-trivial fingerprints, labels, samples."""

    def __init__(self):
        self.evaluations = 0
        self.nontrivial = set()
        self.labels = collections.Counter()
        self.samples = []
        self.inconclusive = 0
        self.extra = collections.Counter()

    def add(self, fingerprint=None, nontrivial=False, labels=(), sample=None, n=1):
        self.evaluations += n
        if nontrivial and fingerprint is not None:
            self.nontrivial.add(fingerprint)
        for l in labels:
            self.labels[l] += 1
        if sample is not None:
            if len(self.samples) < 6:
                self.samples.append(sample)
            elif nontrivial and (int(fp(sample), 16) % 97 == 0) and len(self.samples) < 12:
                self.samples.append(sample)

    def merge(self, o):
        self.evaluations += o.evaluations
        self.nontrivial |= o.nontrivial
        self.labels.update(o.labels)
        self.extra.update(o.extra)
        self.inconclusive += o.inconclusive
        for s in o.samples:
            if len(self.samples) < 12:
                self.samples.append(s)


def write_evidence(pid, tier, seed, level, stats, rule, wall, violations=0,
                   assumptions=(), extra=None, exhaustive=None):
    os.makedirs(EVID, exist_ok=True)
    cov = {
        "evaluations": int(stats.evaluations),
        "distinct_nontrivial": len(stats.nontrivial),
        "rule": rule,
        "samples": stats.samples[:12] if stats.samples else ["(no sample recorded)"],
        "labels": dict(sorted(stats.labels.items())),
        "inconclusive": stats.inconclusive,
    }
    if stats.extra:
        cov["counters"] = dict(sorted(stats.extra.items()))
    if exhaustive is not None:
        cov["exhaustive"] = bool(exhaustive)
    if extra:
        cov.update(extra)
    ev = {"property_id": pid, "tier": tier, "seed": int(seed), "level": level,
          "coverage": cov, "assumptions": list(assumptions),
          "wall_s": round(wall, 2), "violations": int(violations)}
    path = os.path.join(EVID, pid + ".json")
    tmp = path + ".tmp"
    with open(tmp, "w") as f:
        json.dump(ev, f, indent=1, default=_json_default)
    os.rename(tmp, path)
    return path


def _json_default(o):
    if isinstance(o, (bytes, bytearray)):
        return {"hex": bytes(o[:64]).hex(), "len": len(o)}
    if isinstance(o, set):
        return sorted(o)
    return repr(o)


# --------------------------------------------------------------------------
# known findings

def load_known():
    p = os.path.join(ROOT, "known_findings.json")
    if not os.path.exists(p):
        return []
    with open(p) as f:
        return json.load(f).get("findings", [])


def known_match(pid, keys):
    """keys: set of strings describing the failing case.  An *open* finding
    whose key is among them suppresses the violation."""
    for k in load_known():
        if k.get("property") == pid and k.get("status") == "open" and k.get("key") in keys:
            return k
    return None


# --------------------------------------------------------------------------
# replay files

def save_replay(pid, case):
    os.makedirs(REPLAYS, exist_ok=True)
    blob = json.dumps(case, sort_keys=True, default=_json_default)
    name = "%s-%s.json" % (pid, hashlib.sha256(blob.encode()).hexdigest()[:12])
    path = os.path.join(REPLAYS, name)
    with open(path, "w") as f:
        f.write(blob)
    return path


def load_replay(path):
    with open(path) as f:
        return json.load(f)


# --------------------------------------------------------------------------
# parallel map with per-worker statistics

_PM_FN = None


def _pm_worker(args):
    chunk, wid = args
    fn = _PM_FN
    st = Stats()
    fails = []
    for item in chunk:
        try:
            r = fn(item, st)
        except HarnessError:
            raise
        if r is not None:
            fails.append(r)
            if len(fails) >= 2:
                break           # the run is red already; do not spend minutes per further failure (hangs)
    return st, fails


def pmap_cases(fn, items, nproc=None, stop_after=6):
    """Evaluate fn(item, stats) -> failure-dict-or-None over items in a fork
    pool.  Returns (Stats, [failures])."""
    nproc = nproc or NCPU
    items = list(items)
    total = Stats()
    fails = []
    if not items:
        return total, fails
    nchunks = min(len(items), max(nproc * 4, (len(items) + 39) // 40))     # at most ~40 items per chunk
    chunks = [items[i::nchunks] for i in range(nchunks)]
    global _PM_FN
    _PM_FN = fn
    ctx = mp.get_context("fork")
    with ctx.Pool(min(nproc, nchunks)) as pool:
        for st, fl in pool.imap_unordered(_pm_worker, [(c, i) for i, c in enumerate(chunks)]):
            total.merge(st)
            fails.extend(fl)
            if len(fails) >= stop_after:
                pool.terminate()
                break
    return total, fails


# --------------------------------------------------------------------------
# parallel Hypothesis search

def _hyp_worker(conn, strategy_fn, eval_fn, n_examples, seed, wid, max_shrinks):
    import hypothesis
    from hypothesis import given, settings, HealthCheck, Phase
    st = Stats()
    state = {"fail": None, "nfail": 0}

    class Falsified(Exception):
        pass

    def body(case):
        if state["fail"] is not None and state["fail"].get("hang"):
            # a confirmed hang costs minutes per evaluation: do not let the library shrink it (every further candidate
            # "passes" at once, so the search ends with the case that was found)
            return
        r = eval_fn(case, st)
        if r is not None:
            state["fail"] = r
            state["nfail"] += 1
            raise Falsified()

    test = given(strategy_fn())(body)
    test = hypothesis.seed(seed * 1000 + wid)(test)
    test = settings(max_examples=n_examples, database=None, deadline=None,
                    report_multiple_bugs=False, derandomize=False,
                    suppress_health_check=list(HealthCheck),
                    phases=[Phase.generate, Phase.shrink] if max_shrinks else [Phase.generate],
                    print_blob=False)(test)
    err = None
    try:
        test()
    except Falsified:
        pass
    except HarnessError as e:
        err = "harness: %s" % e
    except BaseException as e:  # hypothesis wraps; inspect
        if state["fail"] is None:
            err = "".join(traceback.format_exception(type(e), e, e.__traceback__))[-3000:]
    conn.send((st, state["fail"], err))
    conn.close()


def hyp_search(strategy_fn, eval_fn, n_examples, seed, nworkers=None, shrink=True):
    """Run nworkers independent Hypothesis searches (different derived seeds)
    over the same strategy.  eval_fn(case, stats) returns None if the property
    held, else a JSON-serialisable failure dict (the shrunk one is returned).
    Returns (Stats, [failure dicts])."""
    nworkers = nworkers or NCPU
    per = max(1, (n_examples + nworkers - 1) // nworkers)
    ctx = mp.get_context("fork")
    procs = []
    for w in range(nworkers):
        a, b = ctx.Pipe(duplex=False)
        p = ctx.Process(target=_hyp_worker, args=(b, strategy_fn, eval_fn, per, seed, w, shrink))
        p.start()
        b.close()
        procs.append((p, a))
    total = Stats()
    fails = []
    errs = []
    for p, a in procs:
        try:
            st, fail, err = a.recv()
        except EOFError:
            st, fail, err = Stats(), None, "worker died"
        p.join()
        total.merge(st)
        if fail is not None:
            fails.append(fail)
        if err:
            errs.append(err)
    if errs:
        raise HarnessError("hypothesis worker error:\n" + errs[0])
    return total, fails


# --------------------------------------------------------------------------
# verdict plumbing

class Outcome:
    def __init__(self):
        self.violations = []   # (replay_path, description)
        self.known = []        # descriptions

    def rc(self):
        return 1 if self.violations else 0


def conclude(pid, fails, replay_fn, keys_fn=None, confirm_runs=3, need=1):
    """fails: list of failure dicts (each must contain what replay_fn needs).
    Confirms each by replaying, filters known findings, prints the verdict
    lines.  Returns Outcome."""
    oc = Outcome()
    seen = set()
    hangs = 0
    for f in fails[:8]:
        key = fp(json.dumps(f, sort_keys=True, default=_json_default))
        if key in seen:
            continue
        seen.add(key)
        if f.get("hang"):
            hangs += 1
            if hangs > 2:
                continue        # each confirmation of a hang costs several timeouts; two are enough
        path = save_replay(pid, f)
        hits = 0
        last = None
        for _ in range(confirm_runs):
            try:
                last = replay_fn(f)
            except HarnessError:
                raise
            if last is not None:
                hits += 1
                if hits >= need:
                    break
        if hits < need:
            log("[%s] failure did not reproduce on replay (%d/%d): %s" % (
                pid, hits, confirm_runs, json.dumps(f, default=_json_default)[:400]))
            f["unreproduced"] = True
            os.unlink(path)
            continue
        keys = set(keys_fn(f)) if keys_fn else set()
        k = known_match(pid, keys)
        if k is not None:
            msg = "KNOWN-FINDING: property=%s %s" % (pid, k.get("what", k.get("key")))
            if msg not in oc.known:
                oc.known.append(msg)
                print(msg, flush=True)
            os.unlink(path)
            continue
        oc.violations.append((path, f))
        print("VIOLATION property=%s replay=%s" % (pid, path), flush=True)
        log("[%s] violation detail: %s" % (pid, json.dumps(f, default=_json_default)[:1500]))
    return oc
