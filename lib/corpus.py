"""Deterministic corpora of valid bzip2 files (with their plaintext and bzkit
field map) used as mutation bases by the decompression-side checks."""
import glob
import os
import random
import subprocess

import bzk
import core
import lb
import plain


def _plain_small(r, lo, hi):
    kind = r.choice(["text", "rand", "runs", "alpha", "lcp", "geo", "mix"])
    n = r.randrange(lo, hi)
    if kind == "text":
        return plain.seg_bytes(("text", max(1, n // 5), r.randrange(1 << 30)))[:n]
    if kind == "rand":
        return r.randbytes(n)
    if kind == "runs":
        return plain.seg_bytes(("runs", max(1, n // 40), 20, 4, r.randrange(1 << 30)))[:n]
    if kind == "alpha":
        return plain.seg_bytes(("alpha", r.choice([2, 3, 16]), n, r.randrange(1 << 30)))
    if kind == "lcp":
        return plain.seg_bytes(("lcp", n, r.randrange(1 << 30)))
    if kind == "geo":
        return plain.seg_bytes(("geo", min(n, 20000), r.randrange(0, 5), r.randrange(1 << 30)))
    return plain.seg_bytes(("text", max(1, n // 10), r.randrange(1 << 30))) + r.randbytes(n // 2)


def _bzip2(data, level):
    p = subprocess.run(["/usr/bin/bzip2", "-%d" % level, "-c"], input=data, stdout=subprocess.PIPE,
                       stderr=subprocess.PIPE)
    if p.returncode != 0:
        raise core.HarnessError("bzip2 failed: %r" % p.stderr[:200])
    return p.stdout


def make_file(exe, r, small=True):
    """One valid multi-stream file.  Returns (bytes, plaintext, description)."""
    nstreams = r.choice([1, 2, 2, 3])
    parts = []
    pt = []
    desc = []
    for _ in range(nstreams):
        enc = r.choice(["lbzip2", "lbzip2", "bzip2"])
        if small:
            nblocks = r.choice([1, 1, 2, 3])
            if nblocks == 1:
                d = _plain_small(r, 1, 4000)
            else:
                # level 1: 100000-byte chunks -> nblocks blocks
                d = _plain_small(r, 100000 * (nblocks - 1) + 1, 100000 * (nblocks - 1) + 30000)
                while len(d) <= 100000 * (nblocks - 1):
                    d += _plain_small(r, 1000, 50000)
            level = 1 if nblocks > 1 else r.randrange(1, 10)
        else:
            d = _plain_small(r, 1, 400000)
            level = r.randrange(1, 10)
        if enc == "bzip2":
            z = _bzip2(d, level)
        else:
            res = lb.compress(exe, d, level, r.random() < 0.3, r.choice([1, 2, 4]))
            if res.rc != 0:
                raise core.HarnessError("corpus: lbzip2 failed to compress: rc=%s %r" % (res.rc, res.err[:200]))
            z = res.out
        parts.append(z)
        pt.append(d)
        desc.append("%s-l%d-%dB" % (enc, level, len(d)))
    return b"".join(parts), b"".join(pt), "+".join(desc)


def build(exe, seed, count, small=True, with_repo_samples=True):
    """List of dicts {data, plain, desc, info}.  Only files that bzkit AND
    libbz2 accept and decode to the known plaintext are kept (anything else
    would be a harness problem and is reported as such)."""
    r = random.Random(seed * 7919 + 13)
    out = []
    for i in range(count):
        z, d, desc = make_file(exe, r, small)
        info, o = bzk.inspect(z)
        if not info["valid"] or o != d:
            # the compressor under test may be broken (mutant): fall back to bzip2 so that the
            # decompression checks keep a sound corpus
            z = _bzip2(d, 1)
            info, o = bzk.inspect(z)
            desc = "bzip2-fallback-%dB" % len(d)
            if not info["valid"] or o != d:
                raise core.HarnessError("corpus: bzkit cannot decode bzip2 output")
        out.append({"data": z, "plain": d, "desc": desc, "info": info})
    if with_repo_samples:
        for f in sorted(glob.glob(os.path.join(core.REPO, "tests", "*.bz2"))):
            if os.path.getsize(f) > 20000:
                continue
            z = open(f, "rb").read()
            info, o = bzk.inspect(z)
            v, lo = bzk.libbz2_verdict(z)
            if info["valid"] and v == "valid" and o == lo and len(o) < 2000000 and not info["incomplete_used"]:
                out.append({"data": z, "plain": o, "desc": "repo:" + os.path.basename(f), "info": info})
    return out


# ------------------------------------------------------------------ bit helpers

def flip_bit(data, bit):
    b = bytearray(data)
    b[bit >> 3] ^= 0x80 >> (bit & 7)
    return bytes(b)


def get_bits(data, bit, n):
    v = 0
    for i in range(n):
        v = (v << 1) | ((data[(bit + i) >> 3] >> (7 - ((bit + i) & 7))) & 1)
    return v


def set_bits(data, bit, n, v):
    b = bytearray(data)
    for i in range(n):
        m = 0x80 >> ((bit + i) & 7)
        if (v >> (n - 1 - i)) & 1:
            b[(bit + i) >> 3] |= m
        else:
            b[(bit + i) >> 3] &= ~m & 0xFF
    return bytes(b)


def fields(info):
    """Flat list of (name, bit offset, width, stream index, block index) of
    all header / metadata fields of a valid file."""
    fs = []
    for si, s in enumerate(info["streams"]):
        fs.append(("stream_magic", s["bit"], 24, si, -1))
        fs.append(("stream_level", s["bit"] + 24, 8, si, -1))
        for bi, b in enumerate(s["blocks"]):
            fs.append(("block_magic", b["bit"], 48, si, bi))
            fs.append(("block_crc", b["bit_crc"], 32, si, bi))
            fs.append(("rand", b["bit_rand"], 1, si, bi))
            fs.append(("orig_ptr", b["bit_origptr"], 24, si, bi))
            fs.append(("bitmap", b["bit_bitmap"], b["bit_ngroups"] - b["bit_bitmap"], si, bi))
            fs.append(("n_groups", b["bit_ngroups"], 3, si, bi))
            fs.append(("n_selectors", b["bit_nsel"], 15, si, bi))
            fs.append(("selectors", b["bit_sel"], b["bit_tables"] - b["bit_sel"], si, bi))
            fs.append(("tables", b["bit_tables"], b["bit_data"] - b["bit_tables"], si, bi))
            fs.append(("payload", b["bit_data"], b["end_bit"] - b["bit_data"], si, bi))
        fs.append(("eos_magic", s["eos_bit"], 48, si, -1))
        fs.append(("stream_crc", s["bit_crc"], 32, si, -1))
    return fs


# ------------------------------------------------------------------ spurious block-header candidates

def magic_alphabet():
    """A byte set whose bzip2 symbol map (16-bit range map + 16-bit maps of the used ranges) reads
    0x3141 0x5926 0x5359 ... i.e. contains the 48-bit block-header pattern.  Every block of a text
    over exactly this alphabet carries one spurious scanner candidate in its own header."""
    def bits(v):
        return [i for i in range(16) if v & (0x8000 >> i)]
    groups = bits(0x3141)                  # ranges 2, 3, 7, 9, 15
    maps = [0x5926, 0x5359, 0x8001, 0x0180, 0x4002]
    out = []
    for g, m in zip(groups, maps):
        out += [16 * g + j for j in bits(m)]
    return bytes(out)


def magic_plain(n, seed, runs=False):
    """n bytes over magic_alphabet() without any run of 4 equal bytes (a run-length count byte would
    add byte values to the alphabet and destroy the pattern); every ~3000-byte window contains the
    whole alphabet, so every block of a compressed version has the pattern in its symbol map."""
    r = random.Random(seed)
    al = magic_alphabet()
    out = bytearray()
    while len(out) < max(n, len(al)):
        out += al
        for _ in range(40):
            if runs:
                out += bytes([r.choice(al)]) * r.choice([1, 2, 3])
            out += bytes(r.choices(al, k=r.randrange(1, 60)))
    out = out[:max(n, len(al))]
    # break runs of >= 4
    for i in range(3, len(out)):
        if out[i] == out[i - 1] == out[i - 2] == out[i - 3]:
            out[i] = al[(al.index(out[i]) + 1) % len(al)]
    return bytes(out)


# ------------------------------------------------------------------ planting through the symbol map
#
# When all 16 byte ranges are in use, the block header carries 0xFFFF followed by the 256 "byte used" bits
# verbatim.  Choosing the set of byte values that occur in a plaintext therefore writes (almost) any 256-bit
# string into the compressed stream of ANY conforming encoder -- e.g. the 48-bit block-header pattern followed
# by 208 bits of a complete, decodable false block.

MAGIC_BITS = format(0x314159265359, "048b")


def _bijective(n):
    """run length -> RUNA(1)/RUNB(2) digits, least significant first"""
    out = []
    while n > 0:
        d = 1 if n & 1 else 2
        out.append(d)
        n = (n - d) >> 1
    return out


def false_block(kind, arg=0, seed=0):
    """Bit string (<= 208 bits) that follows the planted magic."""
    r = random.Random(seed)
    if kind == "junk":
        return "".join(r.choice("01") for _ in range(arg or 64))
    crc = format(r.getrandbits(32) | 0x00010001, "032b")
    if kind == "hdr_error":          # well formed up to the tables, both tables incomplete
        return (crc + "0" + format(0x010101, "024b") + format(1, "016b") + format(1, "016b") + "010" +
                format(1, "015b") + "0" + "00010" + "000" + "00010" + "000")
    if kind == "valid_run":          # a VALID block: one run of `arg` bytes 0xFF after the BWT stage
        n = arg - arg % 5 or 5
        idx = 0x010101 if n > 0x010101 else 0x000201 if n > 0x000201 else 0x000021 if n > 0x21 else 1
        b = (crc + "0" + format(idx, "024b") + format(1, "016b") + format(1, "016b") + "010" +
             format(1, "015b") + "0" + "00001" + "0" + "100" + "0" + "00001" + "0" + "100" + "0")
        for d in _bijective(n):
            b += "0" if d == 1 else "10"
        return b + "11"
    raise ValueError(kind)


def planted_plain(payload_bits, size, seed):
    """Plaintext (no run of 4 equal bytes) whose set of used byte values spells MAGIC + payload_bits in the
    256-bit symbol map; every ~600-byte window contains the whole byte set."""
    bits = MAGIC_BITS + payload_bits
    if len(bits) > 256:
        raise ValueError("payload too long")
    bits += "1" * (256 - len(bits))
    for i in range(0, 256, 16):
        if "1" not in bits[i:i + 16]:
            bits = bits[:i + 15] + "1" + bits[i + 16:]      # keep every range in use (changes one payload bit)
    used = bytes(i for i, c in enumerate(bits) if c == "1")
    r = random.Random(seed)
    out = bytearray()
    while len(out) < max(size, len(used)):
        chunk = bytearray(used)
        r.shuffle(chunk)
        out += chunk
        out += bytes(r.choices(used, k=r.randrange(0, 400)))
    out = out[:max(size, len(used))]
    if size < len(used):
        out = bytearray(used)
    # make sure the tail window still has the full set, and break runs of >= 4
    out[-len(used):] = used
    for i in range(3, len(out)):
        if out[i] == out[i - 1] == out[i - 2] == out[i - 3]:
            out[i] = used[(used.index(out[i]) + 1) % len(used)]
    return bytes(out), bits
