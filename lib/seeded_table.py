"""Folds the results of lib/matrix.py (default /tmp/matrix) into seeded/<id>/meta.json ("caught_by") and prints the
markdown table for DESIGN.md section 11."""
import json
import os
import re
import sys

ROOT = os.path.dirname(os.path.dirname(os.path.abspath(__file__)))


def first_lines(path, n=1):
    try:
        return open(path).read()
    except OSError:
        return ""


def summary_of(mid):
    """One line: what the change does (from the sub-agent's notes)."""
    meta = json.load(open(os.path.join(ROOT, "seeded", mid, "meta.json")))
    if meta.get("summary"):
        return meta["summary"]
    return ""


def main():
    out = sys.argv[1] if len(sys.argv) > 1 else "/tmp/matrix"
    rows = []
    for mid in sorted(os.listdir(os.path.join(ROOT, "seeded"))):
        mp = os.path.join(ROOT, "seeded", mid, "meta.json")
        if not os.path.exists(mp):
            continue
        meta = json.load(open(mp))
        rp = os.path.join(out, mid + ".json")
        if os.path.exists(rp):
            res = json.load(open(rp))
            cb = meta.get("caught_by", {})
            if not isinstance(cb, dict):
                cb = {}
            for pid, r in res.items():
                cb[pid] = "%s (%s tier, %d s)" % (r["verdict"], r["tier"], r["seconds"])
            meta["caught_by"] = cb
            with open(mp, "w") as f:
                json.dump(meta, f, indent=1)
        cb = meta.get("caught_by", {})
        bad = ("missed", "not-finished", "ERROR")
        caught = [p for p, v in cb.items() if not str(v).startswith(bad)]
        missed = [p + (" (not finished)" if str(v).startswith("not-finished") else "") for p, v in cb.items()
                  if str(v).startswith(bad)]
        rows.append("| %s | %s | %s | %s | %s |" % (mid, meta.get("breaks_property", ""), (meta.get("summary") or "").replace("|", "/"),
                                                   ", ".join(sorted(caught)) or "-", ", ".join(sorted(missed)) or "-"))
    print("| change | property | what it does / needs | caught by (quick tier) | missed by |")
    print("|---|---|---|---|---|")
    print("\n".join(rows))


if __name__ == "__main__":
    main()
