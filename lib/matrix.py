"""Runs the checks against every vetted seeded change and records which check catches which change.

    python3-vt lib/matrix.py [--tier quick] [--only ID,ID] [--out DIR]

For each /verif/seeded/<id>/patch.diff the property's own check (and related ones, see RELATED) runs against a scratch
copy of /repo/src with the patch applied (lib/trymut.py).  Results: <out>/<id>.json and a summary table."""
import json
import os
import subprocess
import sys
import time

ROOT = os.path.dirname(os.path.dirname(os.path.abspath(__file__)))
RELATED = {
    "C01-m1": ["C01", "C02", "C04"], "C01-m2": ["C01", "C06"],
    "C02-m1": ["C02", "C18"], "C02-m2": ["C02", "C01", "C04"],
    "C03-m1": ["C03", "C04"], "C03-m2": ["C03", "C16", "C21"],
    "C04-m1": ["C04"], "C04-m2": ["C04", "C03"],
    "C05-m1": ["C05", "C07"], "C05-m2": ["C05", "C07"],
    "C06-m1": ["C06", "C01"], "C06-m2": ["C06", "C09"],
    "C07-m1": ["C07", "C05"], "C07-m2": ["C07", "C11", "C19"],
    "C08-m1": ["C08", "C06", "C09"], "C08-m2": ["C08", "C11"],
    "C09-m1": ["C09", "C06"], "C09-m2": ["C09", "C10", "C08"],
    "C10-m1": ["C10", "C06"], "C10-m2": ["C10"],
    "C11-m1": ["C11"], "C11-m2": ["C11", "C10"],
    "C12-m1": ["C12"], "C12-m2": ["C12"],
    "C13-m1": ["C13"], "C13-m2": ["C13"],
    "C14-m1": ["C14"], "C14-m2": ["C14"],
    "C15-m1": ["C15", "C09"], "C15-m2": ["C15"],
    "C16-m1": ["C16", "C21"], "C16-m2": ["C16"],
    "C17-m1": ["C17"], "C17-m2": ["C17"],
    "C18-m1": ["C18"], "C18-m2": ["C18", "C19"],
    "C19-m1": ["C19", "C11"], "C19-m2": ["C19"],
    "C20-m1": ["C20"], "C20-m2": ["C20"],
    "C21-m1": ["C21"], "C21-m2": ["C21"],
    "C22-m1": ["C22"], "C22-m2": ["C22"],
    "C17-m3": ["C17"], "C22-m3": ["C22"], "C22-m4": ["C22"], "C05-m3": ["C05", "C06"], "C10-m3": ["C10"],
    "C01-m3": ["C01", "C02", "C04"], "C09-m4": ["C09", "C06"], "C11-m4": ["C11"], "C16-m3": ["C16"], "C16-m4": ["C16", "C21"],
    "F01-stale-retrieve-job": ["C10", "C11"], "F02-delta-excursion": ["C05", "C07"],
    "F03-emit-reservation-deadlock": ["C11", "C13"],
}


def main():
    args = sys.argv[1:]
    tier = "quick"
    out = "/tmp/matrix"
    only = None
    while args:
        a = args.pop(0)
        if a == "--tier":
            tier = args.pop(0)
        elif a == "--only":
            only = set(args.pop(0).split(","))
        elif a == "--out":
            out = args.pop(0)
    os.makedirs(out, exist_ok=True)
    ids = sorted(d for d in os.listdir(os.path.join(ROOT, "seeded"))
                 if os.path.exists(os.path.join(ROOT, "seeded", d, "patch.diff")))
    for mid in ids:
        if only and mid not in only:
            continue
        res_path = os.path.join(out, mid + ".json")
        res = {}
        if os.path.exists(res_path):
            res = json.load(open(res_path))
        for pid in RELATED.get(mid, [mid[:3]]):
            if pid in res and res[pid].get("tier") == tier:
                continue
            t = time.time()
            p = subprocess.run(["python3-vt", os.path.join(ROOT, "lib", "trymut.py"),
                                os.path.join(ROOT, "seeded", mid, "patch.diff"), pid, "--tier", tier],
                               stdout=subprocess.PIPE, stderr=subprocess.STDOUT)
            o = p.stdout.decode(errors="replace")
            verdict = "CAUGHT" if " CAUGHT" in o else "missed" if " missed" in o else "ERROR"
            det = [l.strip()[:400] for l in o.splitlines() if "violation detail" in l][:2]
            res[pid] = {"verdict": verdict, "tier": tier, "seconds": round(time.time() - t), "detail": det}
            with open(res_path, "w") as f:
                json.dump(res, f, indent=1)
            print(mid, pid, verdict, round(time.time() - t), flush=True)


if __name__ == "__main__":
    main()
