"""Sensitivity helper:  python3-vt lib/trymut.py PATCH ID [ID...] [--tier quick|thorough] [--seed N]
Copies /repo/src to a scratch tree outside /repo and /verif, applies PATCH, runs the
checks against it (VERIF_REPO), prints rc / VIOLATION lines, removes the scratch tree.
Evidence and replays of these runs go to the scratch directory, not to /verif."""
import os
import shutil
import subprocess
import sys
import tempfile
import time

ROOT = os.path.dirname(os.path.dirname(os.path.abspath(__file__)))


def main():
    args = sys.argv[1:]
    tier = "quick"
    seed = "1"
    if "--tier" in args:
        i = args.index("--tier")
        tier = args[i + 1]
        del args[i:i + 2]
    if "--seed" in args:
        i = args.index("--seed")
        seed = args[i + 1]
        del args[i:i + 2]
    patch, ids = args[0], args[1:]
    td = tempfile.mkdtemp(prefix="mutrepo", dir="/tmp")
    try:
        shutil.copytree("/repo/src", os.path.join(td, "src"))
        os.makedirs(os.path.join(td, "tests"))
        for f in os.listdir("/repo/tests"):
            p = os.path.join("/repo/tests", f)
            if os.path.isfile(p):
                shutil.copy(p, os.path.join(td, "tests", f))
        r = subprocess.run(["patch", "-p1", "--fuzz=3", "-i", os.path.abspath(patch)], cwd=td,
                           stdout=subprocess.PIPE, stderr=subprocess.STDOUT)
        if r.returncode != 0:
            print("PATCH FAILED:\n" + r.stdout.decode())
            return 3
        env = dict(os.environ, VERIF_REPO=td, VERIF_SEED=seed, VERIF_EVID=os.path.join(td, "evidence"),
                   VERIF_REPLAYS=os.path.join(td, "replays"))
        worst = 0
        for pid in ids:
            t = time.time()
            p = subprocess.run([os.path.join(ROOT, "check"), pid, "--tier", tier], env=env, stdout=subprocess.PIPE,
                               stderr=subprocess.PIPE)
            out = p.stdout.decode(errors="replace")
            viol = [l for l in out.splitlines() if l.startswith(("VIOLATION", "KNOWN"))]
            err = p.stderr.decode(errors="replace")
            det = [l for l in err.splitlines() if "violation detail" in l or "HARNESS" in l]
            print("%s %s rc=%d %.0fs %s" % (os.path.basename(os.path.dirname(os.path.abspath(patch))),
                                            pid, p.returncode, time.time() - t, "CAUGHT" if p.returncode == 1 else "missed" if p.returncode == 0 else "ERROR"))
            for l in viol[:3]:
                print("   ", l)
            for l in det[:2]:
                print("   ", l[:600])
            if p.returncode not in (0, 1):
                print(err[-1500:])
            worst = max(worst, p.returncode)
        return 0
    finally:
        shutil.rmtree(td, ignore_errors=True)


if __name__ == "__main__":
    sys.exit(main())
