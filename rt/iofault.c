/*
  iofault.so -- LD_PRELOAD shim that fragments, delays, fails or signals at
  chosen system-call positions of lbzip2's data path.  No source hook needed.

  IOFAULT is a ';'-separated list of directives:
    log=<path>                    append one line "op fd arg result errno" per intercepted call
    short=<seed>                  clamp every read/write to a seeded length >= 1 (fragmentation, short writes)
    fail=<op>:<k>:<errno>         the k-th (1-based) call of <op> fails with <errno>;
                                  EPIPE / EFBIG additionally raise SIGPIPE / SIGXFSZ in the calling thread,
                                  as the kernel does
    sig=<op>:<k>:<signo>:<when>   send <signo> to the process right before ("b") or after ("a") the
                                  k-th call of <op>
    delay=<op>:<usec>             sleep before every call of <op>
    stall=<op>:<k>:<msec>         sleep <msec> before the k-th call of <op>
  <op> is one of read write close open unlink fchown fchmod futimens.
  Calls on fd 2 (diagnostics) are never counted or disturbed.
*/
#define _GNU_SOURCE
#include <dlfcn.h>
#include <errno.h>
#include <fcntl.h>
#include <pthread.h>
#include <signal.h>
#include <stdarg.h>
#include <stdint.h>
#include <stdio.h>
#include <stdlib.h>
#include <string.h>
#include <sys/stat.h>
#include <sys/types.h>
#include <time.h>
#include <unistd.h>

enum { OP_READ, OP_WRITE, OP_CLOSE, OP_OPEN, OP_UNLINK, OP_FCHOWN, OP_FCHMOD, OP_FUTIMENS, NOPS };
static const char *const opname[NOPS] = { "read", "write", "close", "open", "unlink", "fchown", "fchmod", "futimens" };

static int inited;
static int log_fd = -1;
static int do_short;
static uint64_t short_seed;
static struct { int on, k, err; } fail_[NOPS];
static struct { int on, k, signo, after; } sig_[NOPS];
static struct { int on, k, ms; } stall_[NOPS];
static unsigned delay_us[NOPS];
static unsigned long counter[NOPS];

static ssize_t (*real_read)(int, void *, size_t);
static ssize_t (*real_write)(int, const void *, size_t);
static int (*real_close)(int);
static int (*real_open)(const char *, int, ...);
static int (*real_unlink)(const char *);
static int (*real_fchown)(int, uid_t, gid_t);
static int (*real_fchmod)(int, mode_t);
static int (*real_futimens)(int, const struct timespec[2]);

static int
opnum(const char *s, size_t n)
{
  int i;

  for (i = 0; i < NOPS; i++)
    if (strlen(opname[i]) == n && !strncmp(opname[i], s, n))
      return i;
  return -1;
}

static uint64_t
mix(uint64_t x)
{
  x += 0x9E3779B97F4A7C15ull;
  x = (x ^ (x >> 30)) * 0xBF58476D1CE4E5B9ull;
  x = (x ^ (x >> 27)) * 0x94D049BB133111EBull;
  return x ^ (x >> 31);
}

__attribute__((constructor))
static void
init(void)
{
  const char *e;
  char *copy, *tok, *save;

  if (inited)
    return;
  inited = 1;
  real_read = dlsym(RTLD_NEXT, "read");
  real_write = dlsym(RTLD_NEXT, "write");
  real_close = dlsym(RTLD_NEXT, "close");
  real_open = dlsym(RTLD_NEXT, "open");
  real_unlink = dlsym(RTLD_NEXT, "unlink");
  real_fchown = dlsym(RTLD_NEXT, "fchown");
  real_fchmod = dlsym(RTLD_NEXT, "fchmod");
  real_futimens = dlsym(RTLD_NEXT, "futimens");
  e = getenv("IOFAULT");
  if (e == NULL)
    return;
  copy = strdup(e);
  for (tok = strtok_r(copy, ";", &save); tok; tok = strtok_r(NULL, ";", &save)) {
    if (!strncmp(tok, "log=", 4)) {
      log_fd = real_open(tok + 4, O_WRONLY | O_CREAT | O_APPEND | O_CLOEXEC, 0600);
    }
    else if (!strncmp(tok, "short=", 6)) {
      do_short = 1;
      short_seed = strtoull(tok + 6, NULL, 10);
    }
    else if (!strncmp(tok, "fail=", 5) || !strncmp(tok, "sig=", 4) || !strncmp(tok, "delay=", 6) ||
             !strncmp(tok, "stall=", 6)) {
      const char *p = strchr(tok, '=') + 1;
      const char *c = strchr(p, ':');
      int op;
      if (c == NULL)
        continue;
      op = opnum(p, (size_t)(c - p));
      if (op < 0)
        continue;
      if (tok[0] == 'f') {
        fail_[op].on = 1;
        sscanf(c + 1, "%d:%d", &fail_[op].k, &fail_[op].err);
      }
      else if (tok[0] == 's' && tok[1] == 'i') {
        char when = 'b';
        sig_[op].on = 1;
        sscanf(c + 1, "%d:%d:%c", &sig_[op].k, &sig_[op].signo, &when);
        sig_[op].after = (when == 'a');
      }
      else if (tok[0] == 's') {
        stall_[op].on = 1;
        sscanf(c + 1, "%d:%d", &stall_[op].k, &stall_[op].ms);
      }
      else {
        delay_us[op] = (unsigned)strtoul(c + 1, NULL, 10);
      }
    }
  }
  free(copy);
}

static void
logcall(int op, int fd, long arg, long res, int err)
{
  char buf[128];
  int n;

  if (log_fd < 0)
    return;
  n = snprintf(buf, sizeof buf, "%s %d %ld %ld %d\n", opname[op], fd, arg, res, err);
  if (n > 0) {
    ssize_t r = real_write(log_fd, buf, (size_t)n);
    (void)r;
  }
}

/* Common pre-call processing.  Returns 1 if the call must fail (errno set). */
static int
before(int op, unsigned long *kout)
{
  unsigned long k = __atomic_add_fetch(&counter[op], 1, __ATOMIC_SEQ_CST);

  *kout = k;
  if (delay_us[op])
    usleep(delay_us[op]);
  if (stall_[op].on && (unsigned long)stall_[op].k == k)
    usleep((useconds_t)stall_[op].ms * 1000u);
  if (sig_[op].on && !sig_[op].after && (unsigned long)sig_[op].k == k)
    kill(getpid(), sig_[op].signo);
  if (fail_[op].on && (unsigned long)fail_[op].k == k) {
    if (fail_[op].err == EPIPE)
      pthread_kill(pthread_self(), SIGPIPE);
    else if (fail_[op].err == EFBIG)
      pthread_kill(pthread_self(), SIGXFSZ);
    errno = fail_[op].err;
    return 1;
  }
  return 0;
}

static void
after(int op, unsigned long k)
{
  if (sig_[op].on && sig_[op].after && (unsigned long)sig_[op].k == k) {
    int e = errno;
    kill(getpid(), sig_[op].signo);
    errno = e;
  }
}

static size_t
clamp(int op, unsigned long k, size_t n)
{
  uint64_t r;

  if (!do_short || n <= 1)
    return n;
  r = mix(short_seed * 1000003ull + (uint64_t)op * 7919ull + k);
  switch (r & 3) {
  case 0: return 1 + (size_t)((r >> 8) % (n < 16 ? n : 16));
  case 1: return 1 + (size_t)((r >> 8) % n);
  case 2: return n;
  default: return 1 + (size_t)((r >> 8) % (n < 70000 ? n : 70000));
  }
}

ssize_t
read(int fd, void *buf, size_t n)
{
  unsigned long k;
  ssize_t r;

  if (!inited)
    init();
  if (fd == 2)
    return real_read(fd, buf, n);
  if (before(OP_READ, &k)) {
    logcall(OP_READ, fd, (long)n, -1, errno);
    return -1;
  }
  r = real_read(fd, buf, clamp(OP_READ, k, n));
  logcall(OP_READ, fd, (long)n, (long)r, r < 0 ? errno : 0);
  after(OP_READ, k);
  return r;
}

ssize_t
write(int fd, const void *buf, size_t n)
{
  unsigned long k;
  ssize_t r;

  if (!inited)
    init();
  if (fd == 2 || fd == log_fd)
    return real_write(fd, buf, n);
  if (before(OP_WRITE, &k)) {
    logcall(OP_WRITE, fd, (long)n, -1, errno);
    return -1;
  }
  r = real_write(fd, buf, clamp(OP_WRITE, k, n));
  logcall(OP_WRITE, fd, (long)n, (long)r, r < 0 ? errno : 0);
  after(OP_WRITE, k);
  return r;
}

int
close(int fd)
{
  unsigned long k;
  int r;

  if (!inited)
    init();
  if (fd == 2 || fd == log_fd)
    return real_close(fd);
  if (before(OP_CLOSE, &k)) {
    int e = errno;
    real_close(fd);             /* the descriptor is gone even when close() reports an error */
    errno = e;
    logcall(OP_CLOSE, fd, 0, -1, errno);
    return -1;
  }
  r = real_close(fd);
  logcall(OP_CLOSE, fd, 0, r, r < 0 ? errno : 0);
  after(OP_CLOSE, k);
  return r;
}

int
open(const char *path, int flags, ...)
{
  unsigned long k;
  mode_t mode = 0;
  int r;

  if (!inited)
    init();
  if (flags & O_CREAT) {
    va_list ap;
    va_start(ap, flags);
    mode = va_arg(ap, mode_t);
    va_end(ap);
  }
  if (before(OP_OPEN, &k)) {
    logcall(OP_OPEN, -1, flags, -1, errno);
    return -1;
  }
  r = real_open(path, flags, mode);
  logcall(OP_OPEN, r, flags, r, r < 0 ? errno : 0);
  after(OP_OPEN, k);
  return r;
}

int
open64(const char *path, int flags, ...)
{
  mode_t mode = 0;

  if (flags & O_CREAT) {
    va_list ap;
    va_start(ap, flags);
    mode = va_arg(ap, mode_t);
    va_end(ap);
  }
  return open(path, flags | O_LARGEFILE, mode);
}

int
unlink(const char *path)
{
  unsigned long k;
  int r;

  if (!inited)
    init();
  if (before(OP_UNLINK, &k)) {
    logcall(OP_UNLINK, -1, 0, -1, errno);
    return -1;
  }
  r = real_unlink(path);
  logcall(OP_UNLINK, -1, 0, r, r < 0 ? errno : 0);
  after(OP_UNLINK, k);
  return r;
}

int
fchown(int fd, uid_t u, gid_t g)
{
  unsigned long k;
  int r;

  if (!inited)
    init();
  if (before(OP_FCHOWN, &k)) {
    logcall(OP_FCHOWN, fd, 0, -1, errno);
    return -1;
  }
  r = real_fchown(fd, u, g);
  logcall(OP_FCHOWN, fd, 0, r, r < 0 ? errno : 0);
  after(OP_FCHOWN, k);
  return r;
}

int
fchmod(int fd, mode_t m)
{
  unsigned long k;
  int r;

  if (!inited)
    init();
  if (before(OP_FCHMOD, &k)) {
    logcall(OP_FCHMOD, fd, 0, -1, errno);
    return -1;
  }
  r = real_fchmod(fd, m);
  logcall(OP_FCHMOD, fd, 0, r, r < 0 ? errno : 0);
  after(OP_FCHMOD, k);
  return r;
}

int
futimens(int fd, const struct timespec ts[2])
{
  unsigned long k;
  int r;

  if (!inited)
    init();
  if (before(OP_FUTIMENS, &k)) {
    logcall(OP_FUTIMENS, fd, 0, -1, errno);
    return -1;
  }
  r = real_futimens(fd, ts);
  logcall(OP_FUTIMENS, fd, 0, r, r < 0 ? errno : 0);
  after(OP_FUTIMENS, k);
  return r;
}
