/*
  verif_rt.c -- runtime behind lbzip2's KJN_LBZIP2_VERIF hooks.

  Modes (environment LBZIP2_VERIF_SCHED):
    unset / "off"              pass-through to pthreads
    perturb:<seed>             pass-through + seeded yields / short sleeps at
                               every hook point (keeps real parallelism; TSan)
    serial:<seed>:<strat>[:<d>[:<est>]]
                               ONE thread runs at a time; mutexes / condition
                               variables are virtual; every synchronisation
                               operation and I/O point is a scheduling point at
                               which a seeded chooser picks the next thread.
                               strat = rw   uniform random walk
                                       pct  PCT with <d> priority change points
                                            drawn over <est> steps
                                       rr   round robin with random quantum
                               A state with no runnable thread (and no signal
                               on its way to the main thread) is a DEADLOCK:
                               reported on fd 2, _exit(97).  More than
                               LBZIP2_VERIF_MAXSTEPS steps: _exit(98).

  Other environment:
    LBZIP2_VERIF_TRACE=<path>  append event lines to <path>
    LBZIP2_VERIF_IN_GRANUL / LBZIP2_VERIF_OUT_GRANUL   (decompression only)
    LBZIP2_VERIF_NOASSERT=1    do not abort on failed scheduler assertions
                               (they are still traced)

  Failed scheduler assertions (queue capacity, conservation, order) print
  "VERIF-ASSERT: ..." on fd 2 and _exit(96).

  All diagnostics use write(2): lbzip2 makes stderr fully buffered and leaves
  through _exit.
*/
#define _GNU_SOURCE
#include <errno.h>
#include <fcntl.h>
#include <pthread.h>
#include <sched.h>
#include <signal.h>
#include <stdarg.h>
#include <stdint.h>
#include <stdio.h>
#include <stdlib.h>
#include <string.h>
#include <unistd.h>

#ifndef KJN_LBZIP2_VERIF
#define KJN_LBZIP2_VERIF
#endif
#include "verif_hooks.h"

enum { M_OFF, M_PERTURB, M_SERIAL };
enum { S_RW, S_PCT, S_RR };

static int mode = M_OFF;
static int strat = S_RW;
static uint64_t seed;
static int trace_fd = -1;
static int noassert;

/* ---------------------------------------------------------------- output */

static void
say(int fd, const char *fmt, ...)
{
  char buf[1024];
  va_list ap;
  int n;

  va_start(ap, fmt);
  n = vsnprintf(buf, sizeof buf, fmt, ap);
  va_end(ap);
  if (n > (int)sizeof buf - 1)
    n = sizeof buf - 1;
  if (n > 0) {
    ssize_t r = write(fd, buf, n);
    (void)r;
  }
}

#define TRACE(...) do { if (trace_fd >= 0) say(trace_fd, __VA_ARGS__); } while (0)

/* ------------------------------------------------------------------ PRNG */

static uint64_t
mix(uint64_t x)
{
  x += 0x9E3779B97F4A7C15ull;
  x = (x ^ (x >> 30)) * 0xBF58476D1CE4E5B9ull;
  x = (x ^ (x >> 27)) * 0x94D049BB133111EBull;
  return x ^ (x >> 31);
}

static uint64_t rng_ctr;        /* serial mode: protected by G; perturb: atomic */

static uint64_t
rnd(void)
{
  uint64_t c = __atomic_fetch_add(&rng_ctr, 1, __ATOMIC_RELAXED);
  return mix(seed * 0x100000001B3ull + c);
}

/* -------------------------------------------------------- serial runtime */

#define MAXT 1024
#define MAXM 8

enum tstate { T_FREE, T_RUNNABLE, T_BLK_MUTEX, T_BLK_COND, T_BLK_JOIN,
              T_HALTED, T_DONE };

struct vthread {
  int id;
  pthread_t real;
  enum tstate st;
  const void *wait_obj;
  pthread_cond_t cv;
  void *(*fn)(void *);
  void *arg;
  long prio;
  unsigned long steps;
  unsigned tasks;
};

static struct vthread th[MAXT];
static int nth;
static pthread_mutex_t G = PTHREAD_MUTEX_INITIALIZER;
static int cur;                 /* id of the thread holding the token */
static int main_pending;        /* SIGUSR2 on its way to the main thread */
static int draining;            /* SIGUSR1 raised: freeze everything */
static __thread struct vthread *self;

struct vmutex { const void *addr; int owner; };
static struct vmutex vm[MAXM];
static int nvm;

static unsigned long steps, switches, max_steps = 50000000ul;
static unsigned long pct_points[8];
static int pct_d;
static unsigned long pct_est = 2000;
static long pct_low = -1;
static unsigned rr_left;

static const char *const st_name[] = { "free", "runnable", "blocked-mutex",
  "blocked-cond", "blocked-join", "halted", "done" };

/* last snapshot handed in by vh_conserve (for the deadlock report) */
static unsigned snap_wu, snap_nw, snap_os, snap_tos;

static struct vthread *
me(void)
{
  if (self == NULL) {
    /* Only the main thread gets here without a trampoline. */
    self = &th[0];
  }
  return self;
}

static _Noreturn void
deadlock(const char *why)
{
  int i;

  say(2, "VERIF-DEADLOCK: %s after %lu steps (%lu switches)\n", why, steps,
      switches);
  for (i = 0; i < nth; i++)
    say(2, "  thread %d: %s wait=%p steps=%lu tasks=%u\n", i,
        st_name[th[i].st], th[i].wait_obj, th[i].steps, th[i].tasks);
  for (i = 0; i < nvm; i++)
    say(2, "  mutex %p owner=%d\n", vm[i].addr, vm[i].owner);
  say(2, "  last snapshot: work_units=%u/%u out_slots=%u/%u main_pending=%d\n",
      snap_wu, snap_nw, snap_os, snap_tos, main_pending);
  TRACE("DEADLOCK %s\n", why);
  _exit(97);
}

static int
eligible(int i)
{
  if (draining && i != 0)
    return 0;
  if (th[i].st == T_RUNNABLE)
    return 1;
  if (i == 0 && th[0].st == T_HALTED && main_pending)
    return 1;
  return 0;
}

/* Choose the next thread to run.  G is held. */
static int
choose(void)
{
  int cand[MAXT];
  int n = 0, i, best;

  if (strat == S_PCT)
    for (i = 0; i < pct_d; i++)
      if (pct_points[i] == steps && eligible(cur))
        th[cur].prio = pct_low--;
  for (i = 0; i < nth; i++)
    if (eligible(i))
      cand[n++] = i;
  if (n == 0)
    return -1;
  if (n == 1)
    return cand[0];

  switch (strat) {
  case S_PCT:
    best = cand[0];
    for (i = 1; i < n; i++)
      if (th[cand[i]].prio > th[best].prio)
        best = cand[i];
    return best;
  case S_RR:
    if (rr_left > 0 && eligible(cur)) {
      rr_left--;
      return cur;
    }
    rr_left = rnd() % 12;
    return cand[rnd() % n];
  default:
    return cand[rnd() % n];
  }
}

/* Scheduling point.  G is held; the caller may or may not be runnable.
   Returns when the caller holds the token again. */
static void
reschedule(struct vthread *t)
{
  int next;

  steps++;
  t->steps++;
  if (steps > max_steps) {
    say(2, "VERIF-LIVELOCK: more than %lu scheduling steps\n", max_steps);
    TRACE("LIVELOCK\n");
    _exit(98);
  }
  next = choose();
  if (next < 0)
    deadlock("no runnable thread");
  if (next != t->id) {
    switches++;
    cur = next;
    pthread_cond_signal(&th[next].cv);
    while (cur != t->id)
      pthread_cond_wait(&t->cv, &G);
  }
}

/* Hand the token to somebody else and do not wait for it. */
static void
handoff(struct vthread *t)
{
  int next;

  steps++;
  next = choose();
  if (next < 0)
    deadlock("no runnable thread (at hand-off)");
  switches++;
  cur = next;
  pthread_cond_signal(&th[next].cv);
  (void)t;
}

static struct vmutex *
vmutex(const void *addr)
{
  int i;

  for (i = 0; i < nvm; i++)
    if (vm[i].addr == addr)
      return &vm[i];
  if (nvm == MAXM) {
    say(2, "VERIF-RT: too many mutexes\n");
    _exit(95);
  }
  vm[nvm].addr = addr;
  vm[nvm].owner = -1;
  return &vm[nvm++];
}

static void
wake_all(enum tstate st, const void *obj)
{
  int i;

  for (i = 0; i < nth; i++)
    if (th[i].st == st && th[i].wait_obj == obj) {
      th[i].st = T_RUNNABLE;
      th[i].wait_obj = NULL;
    }
}

static void
s_lock_inner(struct vthread *t, pthread_mutex_t *m)
{
  struct vmutex *v = vmutex(m);

  while (v->owner != -1) {
    if (v->owner == t->id) {
      say(2, "VERIF-RT: recursive lock of %p by thread %d\n", (void *)m, t->id);
      _exit(95);
    }
    t->st = T_BLK_MUTEX;
    t->wait_obj = m;
    reschedule(t);
  }
  v->owner = t->id;
}

static void *
trampoline(void *arg)
{
  struct vthread *t = arg;
  void *r;

  self = t;
  pthread_mutex_lock(&G);
  while (cur != t->id)
    pthread_cond_wait(&t->cv, &G);
  pthread_mutex_unlock(&G);

  r = t->fn(t->arg);

  pthread_mutex_lock(&G);
  t->st = T_DONE;
  wake_all(T_BLK_JOIN, t);
  handoff(t);
  pthread_mutex_unlock(&G);
  return r;
}

static void
perturb(void)
{
  uint64_t r = rnd();

  if ((r & 7) == 0)
    sched_yield();
  if (((r >> 8) & 63) == 0)
    usleep((r >> 16) % 200);
}

/* ----------------------------------------------------------- hook entry */

int
vh_mutex_lock(pthread_mutex_t *m)
{
  struct vthread *t;

  if (mode == M_OFF)
    return pthread_mutex_lock(m);
  if (mode == M_PERTURB) {
    perturb();
    return pthread_mutex_lock(m);
  }
  t = me();
  pthread_mutex_lock(&G);
  reschedule(t);
  s_lock_inner(t, m);
  pthread_mutex_unlock(&G);
  return 0;
}

int
vh_mutex_unlock(pthread_mutex_t *m)
{
  struct vthread *t;
  struct vmutex *v;

  if (mode == M_OFF)
    return pthread_mutex_unlock(m);
  if (mode == M_PERTURB) {
    int r = pthread_mutex_unlock(m);
    perturb();
    return r;
  }
  t = me();
  pthread_mutex_lock(&G);
  v = vmutex(m);
  if (v->owner != t->id) {
    say(2, "VERIF-RT: thread %d unlocks %p owned by %d\n", t->id, (void *)m,
        v->owner);
    _exit(95);
  }
  v->owner = -1;
  wake_all(T_BLK_MUTEX, m);
  reschedule(t);
  pthread_mutex_unlock(&G);
  return 0;
}

int
vh_cond_wait(pthread_cond_t *c, pthread_mutex_t *m)
{
  struct vthread *t;
  struct vmutex *v;

  if (mode == M_OFF)
    return pthread_cond_wait(c, m);
  if (mode == M_PERTURB) {
    perturb();
    return pthread_cond_wait(c, m);
  }
  t = me();
  pthread_mutex_lock(&G);
  v = vmutex(m);
  if (v->owner != t->id) {
    say(2, "VERIF-RT: cond_wait without the mutex (thread %d)\n", t->id);
    _exit(95);
  }
  v->owner = -1;
  wake_all(T_BLK_MUTEX, m);
  t->st = T_BLK_COND;
  t->wait_obj = c;
  reschedule(t);
  /* woken by signal/broadcast: state is RUNNABLE again */
  s_lock_inner(t, m);
  pthread_mutex_unlock(&G);
  return 0;
}

int
vh_cond_signal(pthread_cond_t *c)
{
  struct vthread *t;
  int w[MAXT], n = 0, i;

  if (mode == M_OFF)
    return pthread_cond_signal(c);
  if (mode == M_PERTURB) {
    int r = pthread_cond_signal(c);
    perturb();
    return r;
  }
  t = me();
  pthread_mutex_lock(&G);
  for (i = 0; i < nth; i++)
    if (th[i].st == T_BLK_COND && th[i].wait_obj == c)
      w[n++] = i;
  if (n > 0) {
    i = w[n == 1 ? 0 : rnd() % n];
    th[i].st = T_RUNNABLE;
    th[i].wait_obj = NULL;
  }
  reschedule(t);
  pthread_mutex_unlock(&G);
  return 0;
}

int
vh_cond_broadcast(pthread_cond_t *c)
{
  struct vthread *t;

  if (mode == M_OFF)
    return pthread_cond_broadcast(c);
  if (mode == M_PERTURB) {
    int r = pthread_cond_broadcast(c);
    perturb();
    return r;
  }
  t = me();
  pthread_mutex_lock(&G);
  wake_all(T_BLK_COND, c);
  reschedule(t);
  pthread_mutex_unlock(&G);
  return 0;
}

int
vh_create(pthread_t *pt, const pthread_attr_t *a, void *(*fn)(void *),
          void *arg)
{
  struct vthread *t, *n;
  int err;

  if (mode == M_OFF)
    return pthread_create(pt, a, fn, arg);
  if (mode == M_PERTURB) {
    perturb();
    return pthread_create(pt, a, fn, arg);
  }
  t = me();
  pthread_mutex_lock(&G);
  if (nth == MAXT) {
    say(2, "VERIF-RT: too many threads\n");
    _exit(95);
  }
  n = &th[nth];
  n->id = nth;
  n->st = T_RUNNABLE;
  n->fn = fn;
  n->arg = arg;
  n->wait_obj = NULL;
  n->steps = 0;
  n->tasks = 0;
  n->prio = (long)(rnd() % 1000000) + 1;
  pthread_cond_init(&n->cv, NULL);
  nth++;
  err = pthread_create(&n->real, a, trampoline, n);
  if (err != 0) {
    nth--;
    pthread_mutex_unlock(&G);
    return err;
  }
  *pt = n->real;
  reschedule(t);
  pthread_mutex_unlock(&G);
  return 0;
}

int
vh_join(pthread_t pt, void **ret)
{
  struct vthread *t, *x = NULL;
  int i;

  if (mode != M_SERIAL)
    return pthread_join(pt, ret);
  t = me();
  pthread_mutex_lock(&G);
  for (i = 1; i < nth; i++)
    if (th[i].st != T_FREE && pthread_equal(th[i].real, pt))
      x = &th[i];
  if (x == NULL) {
    say(2, "VERIF-RT: join of unknown thread\n");
    _exit(95);
  }
  while (x->st != T_DONE) {
    t->st = T_BLK_JOIN;
    t->wait_obj = x;
    reschedule(t);
  }
  reschedule(t);
  pthread_mutex_unlock(&G);
  i = pthread_join(pt, ret);
  pthread_mutex_lock(&G);
  x->st = T_FREE;               /* pthread_t values may be reused */
  pthread_mutex_unlock(&G);
  return i;
}

void
vh_point(int id)
{
  (void)id;
  if (mode == M_OFF)
    return;
  if (mode == M_PERTURB) {
    perturb();
    return;
  }
  pthread_mutex_lock(&G);
  reschedule(me());
  pthread_mutex_unlock(&G);
}

void
vh_halt_enter(void)
{
  struct vthread *t;

  if (mode != M_SERIAL)
    return;
  t = me();
  pthread_mutex_lock(&G);
  if (!main_pending && !draining) {
    t->st = T_HALTED;
    handoff(t);
  }
  pthread_mutex_unlock(&G);
}

void
vh_halt_leave(void)
{
  struct vthread *t;

  if (mode == M_SERIAL) {
    t = me();
    pthread_mutex_lock(&G);
    while (cur != t->id)
      pthread_cond_wait(&t->cv, &G);
    t->st = T_RUNNABLE;
    main_pending = 0;
    pthread_mutex_unlock(&G);
  }
  TRACE("END steps=%lu switches=%lu threads=%d\n", steps, switches, nth);
}

void
vh_note_raise(int sig)
{
  if (mode != M_SERIAL)
    return;
  pthread_mutex_lock(&G);
  if (sig == SIGUSR2)
    main_pending = 1;
  else if (sig == SIGUSR1)
    draining = 1;
  pthread_mutex_unlock(&G);
}

void
vh_after_raise(int sig)
{
  if (mode != M_SERIAL)
    return;
  if (sig == SIGUSR1 && self != NULL && self != &th[0]) {
    /* A fatal error was reported to the main thread, which will _exit().
       From now on only the main thread is eligible (draining): nothing else
       happens after the error, which keeps the run a pure function of the
       schedule seed.  Give it the token in case it is parked at a scheduling
       point rather than in sigsuspend(). */
    pthread_mutex_lock(&G);
    cur = 0;
    pthread_cond_signal(&th[0].cv);
    pthread_mutex_unlock(&G);
    for (;;)
      pause();
  }
}

/* ------------------------------------------------------- I/O granularity */

void
vh_granul(int decompressing, size_t *in_granul, size_t *out_granul)
{
  const char *s;

  if (!decompressing)
    return;
  s = getenv("LBZIP2_VERIF_IN_GRANUL");
  if (s != NULL && *s) {
    unsigned long v = strtoul(s, NULL, 10);
    v = (v + 3) / 4 * 4;
    if (v < 4)
      v = 4;
    *in_granul = v;
  }
  s = getenv("LBZIP2_VERIF_OUT_GRANUL");
  if (s != NULL && *s) {
    unsigned long v = strtoul(s, NULL, 10);
    if (v < 1)
      v = 1;
    *out_granul = v;
  }
}

/* --------------------------------------------------- scheduler assertions */

static pthread_mutex_t A = PTHREAD_MUTEX_INITIALIZER;

#define MAXQ 32
static struct { const void *q; unsigned cap; const char *name; unsigned hi; } caps[MAXQ];
static int ncaps;
static uint64_t ord_major, ord_minor;
static int ord_valid;
static int seen_os0, seen_wu0;

static void
fail_assert(const char *fmt, ...)
{
  char buf[512];
  va_list ap;

  va_start(ap, fmt);
  vsnprintf(buf, sizeof buf, fmt, ap);
  va_end(ap);
  say(2, "VERIF-ASSERT: %s\n", buf);
  TRACE("ASSERT %s\n", buf);
  if (!noassert)
    _exit(96);
}

void
vh_run_begin(void)
{
  pthread_mutex_lock(&A);
  ncaps = 0;
  ord_valid = 0;
  seen_os0 = seen_wu0 = 0;
  pthread_mutex_unlock(&A);
  TRACE("BEGIN\n");
}

void
vh_cap_register(const void *q, unsigned cap, const char *name)
{
  int i;

  pthread_mutex_lock(&A);
  for (i = 0; i < ncaps; i++)
    if (caps[i].q == q)
      break;
  if (i == ncaps && ncaps < MAXQ)
    ncaps++;
  if (i < MAXQ) {
    caps[i].q = q;
    caps[i].cap = cap;
    caps[i].name = name;
    caps[i].hi = 0;
  }
  pthread_mutex_unlock(&A);
}

void
vh_cap_check(const void *q, unsigned new_size, const char *name)
{
  int i;
  unsigned cap = 0;
  int found = 0;

  pthread_mutex_lock(&A);
  for (i = 0; i < ncaps; i++)
    if (caps[i].q == q) {
      cap = caps[i].cap;
      found = 1;
      if (new_size > caps[i].hi)
        caps[i].hi = new_size;
      if (new_size == cap && caps[i].hi == new_size)
        TRACE("QFULL %s %u\n", name, cap);
    }
  pthread_mutex_unlock(&A);
  if (!found)
    fail_assert("queue %s used before initialisation", name);
  else if (new_size > cap)
    fail_assert("queue %s overflow: %u items, capacity %u", name, new_size, cap);
}

void
vh_cap_check2(unsigned new_size, unsigned cap, const char *name)
{
  if (new_size > cap)
    fail_assert("deque %s overflow: %u items, capacity %u", name, new_size, cap);
}

void
vh_conserve(int scheduled, unsigned work_units, unsigned num_worker,
            unsigned out_slots, unsigned total_out_slots)
{
  if (mode == M_SERIAL) {
    snap_wu = work_units;
    snap_nw = num_worker;
    snap_os = out_slots;
    snap_tos = total_out_slots;
  }
  /* The -cdf copy pseudo-process is not checked: there the writer returns the input slot before the
     output slot, so out_slots legitimately dips one below zero (unsigned) for a moment while at most
     two buffers exist; that is not a leak and no queue can overflow from it. */
  if (!scheduled)
    return;
  if (out_slots > total_out_slots)
    fail_assert("out_slots %u exceeds total %u", out_slots, total_out_slots);
  if (work_units > num_worker)
    fail_assert("work_units %u exceeds num_worker %u", work_units, num_worker);
  if (trace_fd >= 0) {
    if (out_slots == 0 && !__atomic_exchange_n(&seen_os0, 1, __ATOMIC_RELAXED))
      TRACE("ZERO out_slots\n");
    if (work_units == 0 && !__atomic_exchange_n(&seen_wu0, 1, __ATOMIC_RELAXED))
      TRACE("ZERO work_units\n");
  }
}

void
vh_in_slots(int scheduled, unsigned in_slots, unsigned total_in_slots)
{
  if (scheduled && in_slots > total_in_slots)
    fail_assert("in_slots %u exceeds total %u", in_slots, total_in_slots);
}

void
vh_final(int eof, unsigned in_slots, unsigned total_in_slots,
         unsigned out_slots, unsigned total_out_slots,
         unsigned work_units, unsigned num_worker)
{
  if (!eof)
    fail_assert("run finished before end of input was seen");
  if (in_slots != total_in_slots)
    fail_assert("input slots not returned: %u of %u", in_slots, total_in_slots);
  if (out_slots != total_out_slots)
    fail_assert("output slots not returned: %u of %u", out_slots,
                total_out_slots);
  if (work_units != num_worker)
    fail_assert("work units not returned: %u of %u", work_units, num_worker);
  TRACE("FINAL ok\n");
}

void
vh_order(uint64_t major, uint64_t minor)
{
  /* called under the scheduler mutex */
  if (ord_valid && !(major > ord_major ||
                     (major == ord_major && minor > ord_minor)))
    fail_assert("block handed to the writer out of order: (%llu,%llu) after "
                "(%llu,%llu)", (unsigned long long)major,
                (unsigned long long)minor, (unsigned long long)ord_major,
                (unsigned long long)ord_minor);
  ord_major = major;
  ord_minor = minor;
  ord_valid = 1;
  TRACE("ORDER\n");
}

static __thread int task_noted;

void
vh_event(int code)
{
  if (code == VH_EV_TASK) {
    if (mode == M_SERIAL && self != NULL)
      self->tasks++;
    if (trace_fd >= 0 && !task_noted) {
      task_noted = 1;
      TRACE("WORKER %lx\n", (unsigned long)pthread_self());
    }
    return;
  }
  TRACE("E %d\n", code);
}

/* ------------------------------------------------------------------ init */

__attribute__((constructor))
static void
vh_init(void)
{
  const char *s = getenv("LBZIP2_VERIF_SCHED");
  const char *p;

  p = getenv("LBZIP2_VERIF_TRACE");
  if (p != NULL && *p)
    trace_fd = open(p, O_WRONLY | O_CREAT | O_APPEND | O_CLOEXEC, 0600);
  p = getenv("LBZIP2_VERIF_NOASSERT");
  noassert = (p != NULL && *p == '1');
  p = getenv("LBZIP2_VERIF_MAXSTEPS");
  if (p != NULL && *p)
    max_steps = strtoul(p, NULL, 10);

  if (s == NULL || !*s || !strcmp(s, "off"))
    return;
  if (!strncmp(s, "perturb:", 8)) {
    mode = M_PERTURB;
    seed = strtoull(s + 8, NULL, 10);
    return;
  }
  if (!strncmp(s, "serial:", 7)) {
    char st[16] = "rw";
    unsigned long long sd = 0;
    unsigned long d = 2, est = 2000;
    int i;

    sscanf(s + 7, "%llu:%15[a-z]:%lu:%lu", &sd, st, &d, &est);
    mode = M_SERIAL;
    seed = sd;
    strat = !strcmp(st, "pct") ? S_PCT : !strcmp(st, "rr") ? S_RR : S_RW;
    if (d > 8)
      d = 8;
    if (est < 1)
      est = 1;
    pct_d = (int)d;
    pct_est = est;
    for (i = 0; i < pct_d; i++)
      pct_points[i] = 1 + rnd() % pct_est;
    /* main thread is thread 0 and holds the token */
    th[0].id = 0;
    th[0].st = T_RUNNABLE;
    th[0].real = pthread_self();
    th[0].prio = (long)(rnd() % 1000000) + 1;
    pthread_cond_init(&th[0].cv, NULL);
    nth = 1;
    cur = 0;
    return;
  }
  say(2, "VERIF-RT: bad LBZIP2_VERIF_SCHED '%s'\n", s);
  _exit(95);
}
