#!/bin/bash
# Builds everything that does not depend on /repo (offline, from files on disk only).
set -e
cd "$(dirname "$0")"
mkdir -p build/tools evidence replays
T=build/tools
if [ -f bzkit/bzkit.cpp ]; then
  if [ ! -x $T/bzkit ] || [ bzkit/bzkit.cpp -nt $T/bzkit ] || [ bzkit/bzkit.hpp -nt $T/bzkit ] || [ bzkit/bzgen.hpp -nt $T/bzkit ]; then
    g++ -std=gnu++17 -O2 -g -Wall -o $T/bzkit.tmp bzkit/bzkit.cpp && mv $T/bzkit.tmp $T/bzkit
    g++ -std=gnu++17 -O2 -g -Wall -shared -fPIC -DBZKIT_NO_MAIN -o $T/libbzkit.so.tmp bzkit/bzkit.cpp && mv $T/libbzkit.so.tmp $T/libbzkit.so
  fi
fi
if [ -f rt/iofault.c ]; then
  if [ ! -f $T/iofault.so ] || [ rt/iofault.c -nt $T/iofault.so ]; then
    gcc -O2 -g -shared -fPIC -o $T/iofault.so.tmp rt/iofault.c -ldl -lpthread && mv $T/iofault.so.tmp $T/iofault.so
  fi
fi
echo "setup ok (tools)"
# in-process property targets: the C++ side does not depend on /repo (only on inproc/glue.h), so it is compiled here
# once; the glue objects are compiled from /repo/src at check time and linked with these (lib/props/_inproc.py).
CXXF="-std=gnu++17 -g -O1 -fno-omit-frame-pointer -Iinproc"
SAN="-fsanitize=address,undefined -fno-sanitize-recover=undefined"
newer() { [ ! -f "$1" ] || [ inproc/targets.cpp -nt "$1" ] || [ inproc/glue.h -nt "$1" ] || [ bzkit/bzgen.hpp -nt "$1" ] || [ bzkit/bzkit.hpp -nt "$1" ]; }
if [ -f inproc/targets.cpp ]; then
  pids=""
  if newer $T/targets_rc.o; then
    (clang++ $CXXF $SAN -c inproc/targets.cpp -o $T/targets_rc.o.tmp && mv $T/targets_rc.o.tmp $T/targets_rc.o) & pids="$pids $!"
  fi
  for p in decode_raw decode_defect decode_valid decode_sym roundtrip collect; do
    if newer $T/targets_fz_$p.o; then
      (clang++ $CXXF $SAN -fsanitize=fuzzer-no-link -DVT_LIBFUZZER=$p -c inproc/targets.cpp -o $T/targets_fz_$p.o.tmp && mv $T/targets_fz_$p.o.tmp $T/targets_fz_$p.o) & pids="$pids $!"
    fi
  done
  for pid in $pids; do wait $pid || { echo "setup: building in-process targets failed"; exit 1; }; done
fi
echo "setup ok (in-process targets)"
