#!/bin/bash
# Builds everything that does not depend on /repo (offline, from files on disk only).
set -e
cd "$(dirname "$0")"
mkdir -p build/tools evidence replays
T=build/tools
if [ -f bzkit/bzkit.cpp ]; then
  if [ ! -x $T/bzkit ] || [ bzkit/bzkit.cpp -nt $T/bzkit ] || [ bzkit/bzkit.hpp -nt $T/bzkit ] || [ bzkit/bzgen.hpp -nt $T/bzkit ]; then
    g++ -std=gnu++17 -O2 -g -Wall -o $T/bzkit.tmp bzkit/bzkit.cpp && mv $T/bzkit.tmp $T/bzkit
    g++ -std=gnu++17 -O2 -g -Wall -shared -fPIC -DBZKIT_NO_MAIN -o $T/libbzkit.so.tmp bzkit/bzkit.cpp && mv $T/libbzkit.so.tmp $T/libbzkit.so
  fi
fi
if [ -f rt/iofault.c ]; then
  if [ ! -f $T/iofault.so ] || [ rt/iofault.c -nt $T/iofault.so ]; then
    gcc -O2 -g -shared -fPIC -o $T/iofault.so.tmp rt/iofault.c -ldl -lpthread && mv $T/iofault.so.tmp $T/iofault.so
  fi
fi
echo "setup ok"
