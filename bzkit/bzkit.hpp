// bzkit -- an independent, strict reader / writer for the bzip2 file format.
// Shares no code with lbzip2.  Rules follow bzip2 1.0.x (decompress.c) plus
// the stream-sequence rule stated in property C05.
#pragma once
#include <algorithm>
#include <array>
#include <cstdint>
#include <cstdio>
#include <cstring>
#include <functional>
#include <numeric>
#include <string>
#include <vector>

namespace bzkit {

// ---------------------------------------------------------------- CRC (MSB first, poly 04C11DB7)
inline const uint32_t *crc_tab() {
  static uint32_t t[256];
  static bool init = false;
  if (!init) {
    for (uint32_t i = 0; i < 256; i++) {
      uint32_t c = i << 24;
      for (int k = 0; k < 8; k++) c = (c & 0x80000000u) ? (c << 1) ^ 0x04C11DB7u : (c << 1);
      t[i] = c;
    }
    init = true;
  }
  return t;
}
struct Crc {
  uint32_t s = 0xFFFFFFFFu;
  void add(uint8_t b) { s = (s << 8) ^ crc_tab()[(s >> 24) ^ b]; }
  uint32_t fin() const { return ~s; }
};

inline const int *rnums() {
  static const int r[512] = {
      619, 720, 127, 481, 931, 816, 813, 233, 566, 247, 985, 724, 205, 454, 863, 491, 741, 242, 949, 214, 733, 859, 335,
      708, 621, 574, 73,  654, 730, 472, 419, 436, 278, 496, 867, 210, 399, 680, 480, 51,  878, 465, 811, 169, 869, 675,
      611, 697, 867, 561, 862, 687, 507, 283, 482, 129, 807, 591, 733, 623, 150, 238, 59,  379, 684, 877, 625, 169, 643,
      105, 170, 607, 520, 932, 727, 476, 693, 425, 174, 647, 73,  122, 335, 530, 442, 853, 695, 249, 445, 515, 909, 545,
      703, 919, 874, 474, 882, 500, 594, 612, 641, 801, 220, 162, 819, 984, 589, 513, 495, 799, 161, 604, 958, 533, 221,
      400, 386, 867, 600, 782, 382, 596, 414, 171, 516, 375, 682, 485, 911, 276, 98,  553, 163, 354, 666, 933, 424, 341,
      533, 870, 227, 730, 475, 186, 263, 647, 537, 686, 600, 224, 469, 68,  770, 919, 190, 373, 294, 822, 808, 206, 184,
      943, 795, 384, 383, 461, 404, 758, 839, 887, 715, 67,  618, 276, 204, 918, 873, 777, 604, 560, 951, 160, 578, 722,
      79,  804, 96,  409, 713, 940, 652, 934, 970, 447, 318, 353, 859, 672, 112, 785, 645, 863, 803, 350, 139, 93,  354,
      99,  820, 908, 609, 772, 154, 274, 580, 184, 79,  626, 630, 742, 653, 282, 762, 623, 680, 81,  927, 626, 789, 125,
      411, 521, 938, 300, 821, 78,  343, 175, 128, 250, 170, 774, 972, 275, 999, 639, 495, 78,  352, 126, 857, 956, 358,
      619, 580, 124, 737, 594, 701, 612, 669, 112, 134, 694, 363, 992, 809, 743, 168, 974, 944, 375, 748, 52,  600, 747,
      642, 182, 862, 81,  344, 805, 988, 739, 511, 655, 814, 334, 249, 515, 897, 955, 664, 981, 649, 113, 974, 459, 893,
      228, 433, 837, 553, 268, 926, 240, 102, 654, 459, 51,  686, 754, 806, 760, 493, 403, 415, 394, 687, 700, 946, 670,
      656, 610, 738, 392, 760, 799, 887, 653, 978, 321, 576, 617, 626, 502, 894, 679, 243, 440, 680, 879, 194, 572, 640,
      724, 926, 56,  204, 700, 707, 151, 457, 449, 797, 195, 791, 558, 945, 679, 297, 59,  87,  824, 713, 663, 412, 693,
      342, 606, 134, 108, 571, 364, 631, 212, 174, 643, 304, 329, 343, 97,  430, 751, 497, 314, 983, 374, 822, 928, 140,
      206, 73,  263, 980, 736, 876, 478, 430, 305, 170, 514, 364, 692, 829, 82,  855, 953, 676, 246, 369, 970, 294, 750,
      807, 827, 150, 790, 288, 923, 804, 378, 215, 828, 592, 281, 565, 555, 710, 82,  896, 831, 547, 261, 524, 462, 293,
      465, 502, 56,  661, 821, 976, 991, 658, 869, 905, 758, 745, 193, 768, 550, 608, 933, 378, 286, 215, 979, 792, 961,
      61,  688, 793, 644, 986, 403, 106, 366, 905, 644, 372, 567, 466, 434, 645, 210, 389, 550, 919, 135, 780, 773, 635,
      389, 707, 100, 626, 958, 165, 504, 920, 176, 193, 713, 857, 265, 203, 50,  668, 108, 645, 990, 626, 197, 510, 357,
      358, 850, 858, 364, 936, 638};
  return r;
}

// ---------------------------------------------------------------- bit I/O
struct BitReader {
  const uint8_t *p;
  uint64_t nbits;
  uint64_t pos = 0;
  bool over = false;  // tried to read past the end
  BitReader(const uint8_t *d, size_t n) : p(d), nbits((uint64_t)n * 8) {}
  uint32_t get(int n) {
    uint32_t v = 0;
    for (int i = 0; i < n; i++) {
      if (pos >= nbits) {
        over = true;
        return 0;
      }
      v = (v << 1) | ((p[pos >> 3] >> (7 - (pos & 7))) & 1);
      pos++;
    }
    return v;
  }
  uint64_t get48() {
    uint64_t hi = get(24);
    uint64_t lo = get(24);
    return (hi << 24) | lo;
  }
};

struct BitWriter {
  std::vector<uint8_t> out;
  uint64_t nbits = 0;
  void put(int n, uint64_t v) {
    for (int i = n - 1; i >= 0; i--) {
      if ((nbits & 7) == 0) out.push_back(0);
      if ((v >> i) & 1) out.back() |= (uint8_t)(0x80 >> (nbits & 7));
      nbits++;
    }
  }
  void align() {
    while (nbits & 7) put(1, 0);
  }
};

// ---------------------------------------------------------------- inspection result
struct TableInfo {
  int start = 0;                  // 5-bit start value
  std::vector<int> len;           // final code lengths, alphabet order (RUNA, RUNB, MTF 1.., EOB)
  uint64_t kraft = 0;             // sum 2^(20-len)  (complete <=> == 2^20)
  bool used = false;              // some group selects it
  bool zigzag = false;            // delta path is not monotone per symbol (legal freedom)
  int min_seen = 99, max_seen = 0;  // extreme intermediate values on the delta path
  uint64_t bit = 0;               // bit offset of the 5-bit start value
  std::vector<uint32_t> freq;     // how often each symbol was coded with this table
};

struct BlockInfo {
  uint64_t bit = 0;         // offset of the 48-bit magic
  uint64_t end_bit = 0;     // first bit after the block's coded data
  uint32_t crc_stored = 0, crc_calc = 0;
  bool rand = false;
  uint32_t orig_ptr = 0;
  int n_in_use = 0, alpha = 0, n_groups = 0;
  int n_sel_decl = 0;       // declared number of selectors
  int n_sel_used = 0;       // groups actually needed
  uint64_t n_syms = 0;      // number of prefix-coded symbols incl. EOB
  uint32_t nblock = 0;      // size after the initial RLE (what the BWT saw)
  uint64_t out_len = 0;     // decoded bytes
  uint64_t out_off = 0;     // offset of this block's bytes in the total output
  std::vector<TableInfo> tables;
  std::vector<uint8_t> selectors;  // after MTF decoding, all declared (capped at 18002 like bzip2)
  uint64_t bit_crc = 0, bit_rand = 0, bit_origptr = 0, bit_bitmap = 0, bit_ngroups = 0, bit_nsel = 0, bit_sel = 0,
           bit_tables = 0, bit_data = 0;
  bool incomplete_used = false, oversub_used = false;
  bool ends_in_run4 = false;
};

struct StreamInfo {
  uint64_t bit = 0;  // offset of 'B'
  int level = 0;
  std::vector<BlockInfo> blocks;
  uint64_t eos_bit = 0;
  uint64_t bit_crc = 0;
  uint32_t crc_stored = 0, crc_calc = 0;
  uint64_t end_byte = 0;  // first byte after the stream (after byte alignment)
};

struct Result {
  bool valid = false;
  std::string reason;       // first violated rule when !valid
  uint64_t err_bit = 0;
  std::vector<StreamInfo> streams;  // includes the (partial) stream in which the error occurred
  std::string output;       // decoded bytes of all *complete, valid* blocks before the error
  uint64_t trailing_off = 0, trailing_len = 0;  // ignored trailing data (valid files)
  bool incomplete_used = false, oversub_used = false;  // documented exception classes seen
  uint64_t complete_streams = 0;
};

struct Options {
  bool want_output = true;
  bool want_freq = true;
  bool lenient_crc = false;  // do not fail on CRC mismatches (used to re-seal mutated streams)
};

namespace detail {

struct Fail {
  std::string why;
  uint64_t bit;
};

// Canonical decoder equivalent to bzip2's limit/base/perm scheme, valid for
// complete and incomplete length sets.  For oversubscribed sets it mimics
// "first match in (length, symbol) order", and the caller flags the table.
struct Canon {
  int minl = 21, maxl = 0;
  uint32_t first_code[22];  // first canonical code of each length
  uint32_t count[22];
  uint32_t index[22];  // index into perm of first symbol of that length
  std::vector<uint16_t> perm;
  void build(const std::vector<int> &len) {
    std::fill(count, count + 22, 0);
    for (int l : len) {
      count[l]++;
      minl = std::min(minl, l);
      maxl = std::max(maxl, l);
    }
    perm.clear();
    for (int l = 1; l <= 20; l++)
      for (size_t s = 0; s < len.size(); s++)
        if (len[s] == l) perm.push_back((uint16_t)s);
    uint32_t code = 0, idx = 0;
    for (int l = 1; l <= 20; l++) {
      first_code[l] = code;
      index[l] = idx;
      code = (code + count[l]) << 1;
      idx += count[l];
    }
  }
  // returns symbol or -1 (no such code within 20 bits) ; -2 on EOF
  int decode(BitReader &br) const {
    uint32_t code = 0;
    for (int l = 1; l <= 20; l++) {
      code = (code << 1) | br.get(1);
      if (br.over) return -2;
      if (l >= minl && count[l] && code >= first_code[l] && code - first_code[l] < count[l])
        return perm[index[l] + (code - first_code[l])];
    }
    return -1;
  }
};

}  // namespace detail

// Decode one block body (after the 48-bit magic).  Throws detail::Fail.
inline void read_block(BitReader &br, int level, BlockInfo &b, std::string *out, const Options &opt) {
  using detail::Fail;
  auto need = [&](const char *what) {
    if (br.over) throw Fail{std::string("unexpected end of input in ") + what, br.pos};
  };
  b.bit_crc = br.pos;
  b.crc_stored = br.get(32);
  need("block CRC");
  b.bit_rand = br.pos;
  b.rand = br.get(1);
  b.bit_origptr = br.pos;
  b.orig_ptr = br.get(24);
  need("block header");
  if (b.orig_ptr > 10u + 100000u * (unsigned)level) throw Fail{"primary index beyond the declared block size", b.bit_origptr};
  // symbol map
  b.bit_bitmap = br.pos;
  uint32_t big = br.get(16);
  need("symbol map");
  std::vector<uint8_t> seq;
  for (int i = 0; i < 16; i++)
    if (big & (0x8000u >> i)) {
      uint32_t sm = br.get(16);
      need("symbol map");
      for (int j = 0; j < 16; j++)
        if (sm & (0x8000u >> j)) seq.push_back((uint8_t)(i * 16 + j));
    }
  b.n_in_use = (int)seq.size();
  if (b.n_in_use == 0) throw Fail{"empty symbol map", b.bit_bitmap};
  b.alpha = b.n_in_use + 2;
  b.bit_ngroups = br.pos;
  b.n_groups = br.get(3);
  need("table count");
  if (b.n_groups < 2 || b.n_groups > 6) throw Fail{"number of tables not in 2..6", b.bit_ngroups};
  b.bit_nsel = br.pos;
  b.n_sel_decl = br.get(15);
  need("selector count");
  if (b.n_sel_decl < 1) throw Fail{"no selectors", b.bit_nsel};
  // selectors (MTF coded, unary)
  b.bit_sel = br.pos;
  {
    uint8_t pos[6] = {0, 1, 2, 3, 4, 5};
    for (int i = 0; i < b.n_sel_decl; i++) {
      int j = 0;
      for (;;) {
        uint32_t bit = br.get(1);
        need("selectors");
        if (!bit) break;
        j++;
        if (j >= b.n_groups) throw Fail{"selector index not below the number of tables", br.pos - 1};
      }
      uint8_t v = pos[j];
      for (; j > 0; j--) pos[j] = pos[j - 1];
      pos[0] = v;
      if (i < 18002) b.selectors.push_back(v);  // bzip2 1.0.8: surplus selectors are read and dropped
    }
  }
  // coding tables
  b.bit_tables = br.pos;
  b.tables.resize(b.n_groups);
  for (int t = 0; t < b.n_groups; t++) {
    TableInfo &T = b.tables[t];
    T.bit = br.pos;
    int curr = br.get(5);
    need("code lengths");
    T.start = curr;
    T.len.resize(b.alpha);
    for (int i = 0; i < b.alpha; i++) {
      int dir = 0;
      for (;;) {
        T.min_seen = std::min(T.min_seen, curr);
        T.max_seen = std::max(T.max_seen, curr);
        if (curr < 1 || curr > 20) throw Fail{"code length step outside 1..20", br.pos};
        uint32_t bit = br.get(1);
        need("code lengths");
        if (!bit) break;
        bit = br.get(1);
        need("code lengths");
        int d = bit ? -1 : +1;
        if (dir != 0 && d != dir) T.zigzag = true;
        dir = d;
        curr += d;
      }
      T.len[i] = curr;
    }
    T.kraft = 0;
    for (int l : T.len) T.kraft += (uint64_t)1 << (20 - l);
    if (opt.want_freq) T.freq.assign(b.alpha, 0);
  }
  // prefix-coded data
  b.bit_data = br.pos;
  std::vector<detail::Canon> canon(b.n_groups);
  for (int t = 0; t < b.n_groups; t++) canon[t].build(b.tables[t].len);
  const uint32_t cap = 100000u * (unsigned)level;
  std::vector<uint8_t> tt;  // the block after the inverse MTF (what the BWT produced)
  tt.reserve(std::min<uint32_t>(cap, 1u << 12));
  uint8_t mtf[256];
  for (int i = 0; i < b.n_in_use; i++) mtf[i] = (uint8_t)i;
  const int EOB = b.n_in_use + 1;
  uint64_t run = 0;
  int run_bits = 0;
  int group = -1, left = 0;
  const detail::Canon *C = nullptr;
  TableInfo *T = nullptr;
  auto flush_run = [&]() {
    if (run_bits == 0) return;
    if (run > cap || tt.size() + run > cap) throw detail::Fail{"run overflows the declared block size", br.pos};
    tt.insert(tt.end(), (size_t)run, seq[mtf[0]]);
    run = 0;
    run_bits = 0;
  };
  for (;;) {
    if (left == 0) {
      group++;
      if (group >= (int)b.selectors.size()) throw Fail{"data continues past the last selector", br.pos};
      int t = b.selectors[group];
      C = &canon[t];
      T = &b.tables[t];
      if (!T->used) {
        T->used = true;
        if (T->kraft < ((uint64_t)1 << 20)) b.incomplete_used = true;
        if (T->kraft > ((uint64_t)1 << 20)) b.oversub_used = true;
      }
      left = 50;
    }
    left--;
    int s = C->decode(br);
    if (s == -2) throw Fail{"unexpected end of input in coded data", br.pos};
    if (s == -1) throw Fail{"bit pattern is not a code of the selected table", br.pos};
    b.n_syms++;
    if (opt.want_freq) T->freq[s]++;
    if (s == EOB) break;
    if (s < 2) {  // RUNA / RUNB
      if (run_bits >= 21) throw Fail{"run length beyond 2^21", br.pos};
      run += (uint64_t)(s + 1) << run_bits;
      run_bits++;
      continue;
    }
    flush_run();
    if (tt.size() >= cap) throw Fail{"block overflows the declared block size", br.pos};
    int idx = s - 1;
    uint8_t v = mtf[idx];
    memmove(mtf + 1, mtf, idx);
    mtf[0] = v;
    tt.push_back(seq[v]);
  }
  flush_run();
  b.n_sel_used = group + 1;
  b.end_bit = br.pos;
  b.nblock = (uint32_t)tt.size();
  if (b.orig_ptr >= b.nblock) throw Fail{"primary index not inside the block", b.bit_origptr};
  // inverse BWT
  const uint32_t n = b.nblock;
  std::vector<uint32_t> cftab(257, 0), T2(n);
  for (uint32_t i = 0; i < n; i++) cftab[tt[i] + 1]++;
  for (int i = 0; i < 256; i++) cftab[i + 1] += cftab[i];
  for (uint32_t i = 0; i < n; i++) T2[cftab[tt[i]]++] = i;
  std::vector<uint8_t> pre(n);  // block before the BWT (= after initial RLE, possibly randomised)
  {
    uint32_t p = T2[b.orig_ptr];
    for (uint32_t i = 0; i < n; i++) {
      pre[i] = tt[p];
      p = T2[p];
    }
  }
  if (b.rand) {
    int rt = 0, rn = rnums()[0] - 2;  // first flipped byte is index 617
    for (uint32_t i = 0; i < n; i++) {
      if (rn == 0) {
        pre[i] ^= 1;
        rt = (rt + 1) & 511;
        rn = rnums()[rt];
      }
      rn--;
    }
  }
  // inverse initial RLE + CRC
  Crc crc;
  uint64_t produced = 0;
  {
    uint32_t i = 0;
    int same = 0;
    int last = -1;
    while (i < n) {
      uint8_t c = pre[i++];
      if (same == 4) {
        // c is a repeat count
        for (int k = 0; k < c; k++) {
          crc.add((uint8_t)last);
          if (out) out->push_back((char)last);
        }
        produced += c;
        same = 0;
        last = -1;
        continue;
      }
      crc.add(c);
      if (out) out->push_back((char)c);
      produced++;
      if (c == last)
        same++;
      else {
        same = 1;
        last = c;
      }
    }
    if (same == 4) {
      b.ends_in_run4 = true;
      throw Fail{"block ends in four equal bytes without a repeat count", b.end_bit};
    }
  }
  b.out_len = produced;
  b.crc_calc = crc.fin();
  if (b.crc_calc != b.crc_stored && !opt.lenient_crc) throw Fail{"block CRC mismatch", b.bit_crc};
}

inline Result inspect(const uint8_t *data, size_t n, const Options &opt = Options()) {
  using detail::Fail;
  Result R;
  BitReader br(data, n);
  std::string *out = opt.want_output ? &R.output : nullptr;
  size_t byte = 0;
  bool first = true;
  try {
    for (;;) {
      // at a byte boundary `byte`
      bool hdr = n - byte >= 4 && data[byte] == 'B' && data[byte + 1] == 'Z' && data[byte + 2] == 'h' &&
                 data[byte + 3] >= '1' && data[byte + 3] <= '9';
      if (!hdr) {
        if (first) throw Fail{"input does not start with a BZh1-BZh9 header", (uint64_t)byte * 8};
        R.trailing_off = byte;
        R.trailing_len = n - byte;
        break;
      }
      first = false;
      R.streams.emplace_back();
      StreamInfo &S = R.streams.back();
      S.bit = (uint64_t)byte * 8;
      S.level = data[byte + 3] - '0';
      br.pos = S.bit + 32;
      uint32_t comb = 0;
      for (;;) {
        uint64_t at = br.pos;
        uint64_t magic = br.get48();
        if (br.over) throw Fail{"unexpected end of input where a block or end-of-stream header must be", at};
        if (magic == 0x177245385090ull) {
          S.eos_bit = at;
          S.bit_crc = br.pos;
          S.crc_stored = br.get(32);
          if (br.over) throw Fail{"unexpected end of input in stream CRC", S.bit_crc};
          S.crc_calc = comb;
          if (S.crc_stored != comb && !opt.lenient_crc) throw Fail{"stream CRC mismatch", S.bit_crc};
          break;
        }
        if (magic != 0x314159265359ull) throw Fail{"bad block header magic", at};
        S.blocks.emplace_back();
        // NB: do not keep a reference across emplace_back
        {
          BlockInfo &B = S.blocks.back();
          B.bit = at;
          B.out_off = out ? out->size() : 0;
          size_t keep = out ? out->size() : 0;
          try {
            read_block(br, S.level, B, out, opt);
          } catch (Fail &) {
            // lenient mode keeps what the run-length stage had produced when the block failed: a decoder that
            // streams its output has written those bytes before it can know that the block is bad
            if (out && !opt.lenient_crc) out->resize(keep);
            R.incomplete_used |= B.incomplete_used;
            R.oversub_used |= B.oversub_used;
            throw;
          }
          R.incomplete_used |= B.incomplete_used;
          R.oversub_used |= B.oversub_used;
          comb = ((comb << 1) | (comb >> 31)) ^ B.crc_calc;
        }
      }
      byte = (size_t)((br.pos + 7) / 8);
      S.end_byte = byte;
      R.complete_streams++;
    }
    R.valid = true;
    if (R.oversub_used) {
      R.valid = false;
      R.reason = "a group is coded by an oversubscribed (non-prefix) table";
    }
  } catch (Fail &f) {
    R.valid = false;
    R.reason = f.why;
    R.err_bit = f.bit;
  }
  return R;
}

}  // namespace bzkit
