// bzkit CLI:
//   bzkit inspect FILE [--out OUTFILE] [--lens] [--freq]   -> JSON verdict + field map on stdout
#include "bzkit.hpp"
#include "bzgen.hpp"

#include <fstream>
#include <iostream>
#include <sstream>

using namespace bzkit;

static std::vector<uint8_t> slurp(const char *path) {
  if (!strcmp(path, "-"))
    return std::vector<uint8_t>((std::istreambuf_iterator<char>(std::cin)), std::istreambuf_iterator<char>());
  std::ifstream f(path, std::ios::binary);
  if (!f) {
    fprintf(stderr, "bzkit: cannot open %s\n", path);
    exit(2);
  }
  return std::vector<uint8_t>((std::istreambuf_iterator<char>(f)), std::istreambuf_iterator<char>());
}

static std::string jstr(const std::string &s) {
  std::string o = "\"";
  for (char c : s) {
    if (c == '"' || c == '\\') {
      o += '\\';
      o += c;
    } else if ((unsigned char)c < 0x20) {
      char b[8];
      snprintf(b, sizeof b, "\\u%04x", c);
      o += b;
    } else
      o += c;
  }
  return o + "\"";
}

static void dump(const Result &R, bool lens, bool freq, std::ostream &o) {
  o << "{\"valid\":" << (R.valid ? "true" : "false") << ",\"reason\":" << jstr(R.reason) << ",\"err_bit\":" << R.err_bit
    << ",\"complete_streams\":" << R.complete_streams << ",\"out_len\":" << R.output.size()
    << ",\"trailing_off\":" << R.trailing_off << ",\"trailing_len\":" << R.trailing_len
    << ",\"incomplete_used\":" << (R.incomplete_used ? "true" : "false")
    << ",\"oversub_used\":" << (R.oversub_used ? "true" : "false") << ",\"streams\":[";
  for (size_t si = 0; si < R.streams.size(); si++) {
    const StreamInfo &S = R.streams[si];
    if (si) o << ",";
    o << "{\"bit\":" << S.bit << ",\"level\":" << S.level << ",\"eos_bit\":" << S.eos_bit << ",\"bit_crc\":" << S.bit_crc
      << ",\"crc_stored\":" << S.crc_stored << ",\"crc_calc\":" << S.crc_calc << ",\"end_byte\":" << S.end_byte
      << ",\"blocks\":[";
    for (size_t bi = 0; bi < S.blocks.size(); bi++) {
      const BlockInfo &B = S.blocks[bi];
      if (bi) o << ",";
      o << "{\"bit\":" << B.bit << ",\"end_bit\":" << B.end_bit << ",\"crc_stored\":" << B.crc_stored
        << ",\"crc_calc\":" << B.crc_calc << ",\"rand\":" << (B.rand ? 1 : 0) << ",\"orig_ptr\":" << B.orig_ptr
        << ",\"n_in_use\":" << B.n_in_use << ",\"alpha\":" << B.alpha << ",\"n_groups\":" << B.n_groups
        << ",\"n_sel_decl\":" << B.n_sel_decl << ",\"n_sel_used\":" << B.n_sel_used << ",\"n_syms\":" << B.n_syms
        << ",\"nblock\":" << B.nblock << ",\"out_len\":" << B.out_len << ",\"out_off\":" << B.out_off
        << ",\"bit_crc\":" << B.bit_crc << ",\"bit_rand\":" << B.bit_rand << ",\"bit_origptr\":" << B.bit_origptr
        << ",\"bit_bitmap\":" << B.bit_bitmap << ",\"bit_ngroups\":" << B.bit_ngroups << ",\"bit_nsel\":" << B.bit_nsel
        << ",\"bit_sel\":" << B.bit_sel << ",\"bit_tables\":" << B.bit_tables << ",\"bit_data\":" << B.bit_data
        << ",\"incomplete_used\":" << (B.incomplete_used ? "true" : "false")
        << ",\"oversub_used\":" << (B.oversub_used ? "true" : "false") << ",\"tables\":[";
      for (size_t t = 0; t < B.tables.size(); t++) {
        const TableInfo &T = B.tables[t];
        if (t) o << ",";
        int mn = 99, mx = 0;
        for (int l : T.len) {
          mn = std::min(mn, l);
          mx = std::max(mx, l);
        }
        o << "{\"bit\":" << T.bit << ",\"start\":" << T.start << ",\"kraft\":" << T.kraft
          << ",\"used\":" << (T.used ? "true" : "false") << ",\"zigzag\":" << (T.zigzag ? "true" : "false")
          << ",\"min_seen\":" << T.min_seen << ",\"max_seen\":" << T.max_seen << ",\"min_len\":" << mn
          << ",\"max_len\":" << mx << ",\"len0\":" << (T.len.empty() ? 0 : T.len[0]);
        if (lens) {
          o << ",\"len\":[";
          for (size_t i = 0; i < T.len.size(); i++) o << (i ? "," : "") << T.len[i];
          o << "]";
        }
        if (freq && !T.freq.empty()) {
          o << ",\"freq\":[";
          for (size_t i = 0; i < T.freq.size(); i++) o << (i ? "," : "") << T.freq[i];
          o << "]";
        }
        o << "}";
      }
      o << "]}";
    }
    o << "]}";
  }
  o << "]}\n";
}

extern "C" {
// C API for ctypes: returns malloc'ed JSON (caller frees with bzk_free); *out / *outlen receive the decoded bytes.
char *bzk_inspect_json(const uint8_t *data, size_t n, int lens, int freq, uint8_t **out, size_t *outlen) {
  Options opt;
  opt.want_output = out != nullptr;
  opt.want_freq = (freq & 1) != 0;
  opt.lenient_crc = (freq & 2) != 0;
  Result R = inspect(data, n, opt);
  std::ostringstream o;
  dump(R, lens != 0, (freq & 1) != 0, o);
  std::string s = o.str();
  char *js = (char *)malloc(s.size() + 1);
  memcpy(js, s.c_str(), s.size() + 1);
  if (out) {
    *out = (uint8_t *)malloc(R.output.size() + 1);
    memcpy(*out, R.output.data(), R.output.size());
    *outlen = R.output.size();
  }
  return js;
}
void bzk_free(void *p) { free(p); }

// generator: tape -> file.  Returns malloc'ed JSON {"defect":..,"labels":{..},"note":..}; *bytes/*plain are malloc'ed.
char *bzk_gen(const uint8_t *tape, size_t n, int max_block, int allow_big, int defect, uint8_t **bytes, size_t *blen,
              uint8_t **plain, size_t *plen) {
  gen::GenOptions o;
  o.max_block = max_block;
  o.allow_big = allow_big != 0;
  o.defect = defect;
  gen::GenResult R = gen::generate(tape, n, o);
  std::ostringstream js;
  js << "{\"defect\":" << jstr(gen::defect_name(R.defect)) << ",\"note\":" << jstr(R.note) << ",\"labels\":{";
  bool first = true;
  for (auto &kv : R.labels) {
    js << (first ? "" : ",") << jstr(kv.first) << ":" << kv.second;
    first = false;
  }
  js << "}}";
  std::string s = js.str();
  char *r = (char *)malloc(s.size() + 1);
  memcpy(r, s.c_str(), s.size() + 1);
  *bytes = (uint8_t *)malloc(R.bytes.size() + 1);
  memcpy(*bytes, R.bytes.data(), R.bytes.size());
  *blen = R.bytes.size();
  *plain = (uint8_t *)malloc(R.plain.size() + 1);
  memcpy(*plain, R.plain.data(), R.plain.size());
  *plen = R.plain.size();
  return r;
}
// same, with symbol-level blocks: sym_blocks = k > 0 -> about one block in k; plant as in GenOptions
char *bzk_gen2(const uint8_t *tape, size_t n, int max_block, int allow_big, int defect, int sym_blocks, int plant,
               uint8_t **bytes, size_t *blen, uint8_t **plain, size_t *plen) {
  gen::GenOptions o;
  o.max_block = max_block;
  o.allow_big = allow_big != 0;
  o.defect = defect;
  o.sym_blocks = sym_blocks;
  o.plant = plant;
  gen::GenResult R = gen::generate(tape, n, o);
  std::ostringstream js;
  js << "{\"defect\":" << jstr(gen::defect_name(R.defect)) << ",\"note\":" << jstr(R.note)
     << ",\"sym_used\":" << (R.sym_used ? "true" : "false") << ",\"labels\":{";
  bool first = true;
  for (auto &kv : R.labels) {
    js << (first ? "" : ",") << jstr(kv.first) << ":" << kv.second;
    first = false;
  }
  js << "}}";
  std::string s = js.str();
  char *r = (char *)malloc(s.size() + 1);
  memcpy(r, s.c_str(), s.size() + 1);
  *bytes = (uint8_t *)malloc(R.bytes.size() + 1);
  memcpy(*bytes, R.bytes.data(), R.bytes.size());
  *blen = R.bytes.size();
  *plain = (uint8_t *)malloc(R.plain.size() + 1);
  memcpy(*plain, R.plain.data(), R.plain.size());
  *plen = R.plain.size();
  return r;
}
int bzk_gen_ndefects(void) { return gen::D_COUNT; }
const char *bzk_gen_defect_name(int d) { return gen::defect_name(d); }
}

#ifndef BZKIT_NO_MAIN
int main(int argc, char **argv) {
  if (argc >= 3 && !strcmp(argv[1], "inspect")) {
    const char *outp = nullptr;
    bool lens = false, freq = false;
    for (int i = 3; i < argc; i++) {
      if (!strcmp(argv[i], "--out") && i + 1 < argc)
        outp = argv[++i];
      else if (!strcmp(argv[i], "--lens"))
        lens = true;
      else if (!strcmp(argv[i], "--freq"))
        freq = true;
    }
    std::vector<uint8_t> d = slurp(argv[2]);
    Options opt;
    opt.want_output = true;
    opt.want_freq = freq;
    Result R = inspect(d.data(), d.size(), opt);
    if (outp) {
      std::ofstream f(outp, std::ios::binary);
      f.write(R.output.data(), R.output.size());
    }
    dump(R, lens, freq, std::cout);
    return 0;
  }
  fprintf(stderr, "usage: bzkit inspect FILE [--out OUT] [--lens] [--freq]\n");
  return 2;
}
#endif
