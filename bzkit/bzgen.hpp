// bzgen -- choice-tape generator of bzip2 files (valid ones using every legal
// freedom of the format, and ones with a single crafted defect).  Part of
// bzkit; shares no code with lbzip2.  Every decision consumes entries of a
// "tape" of small integers, so that Hypothesis (list of ints), rapidcheck and
// libFuzzer (raw bytes) can drive the same generator and shrink towards
// shorter tapes / smaller entries (an exhausted tape answers 0 everywhere,
// which always selects the simplest alternative).
//
// The generator works from the BWT input backwards to the plaintext: it
// chooses the byte string `pre` the block-sorting stage sees (so run-length
// count bytes 0..255 and split runs -- legal, but never produced by bzip2 or
// lbzip2 -- occur naturally) and derives the plaintext by undoing the initial
// run-length encoding.
#pragma once
#include "bzkit.hpp"

#include <map>
#include <sstream>

namespace bzkit {
namespace gen {

struct Tape {
  const uint8_t *p;
  size_t n, i = 0;
  Tape(const uint8_t *d, size_t len) : p(d), n(len) {}
  bool empty() const { return i >= n; }
  uint32_t byte() { return i < n ? p[i++] : 0; }
  // value in [0, m)
  uint32_t pick(uint32_t m) {
    if (m <= 1) return 0;
    uint32_t v = byte();
    if (m > 256) v |= byte() << 8;
    if (m > 65536) v |= byte() << 16;
    return v % m;
  }
  bool flag(uint32_t one_in) { return pick(one_in) == one_in - 1; }  // rare event = high value, 0 => false
};

enum Defect {
  D_NONE = 0,
  D_DELTA_LOW,        // a length-1 symbol coded "-1 +1" (intermediate value 0)
  D_DELTA_HIGH,       // a length-20 symbol coded "+1 -1" (intermediate value 21)
  D_START_ZERO,       // 5-bit start value 0, then +1 ...
  D_START_HIGH,       // 5-bit start value 21..31, then -1 ...
  D_SELECTOR_RANGE,   // selector MTF index == number of tables
  D_NGROUPS_0, D_NGROUPS_1, D_NGROUPS_7,
  D_NSEL_0,
  D_NSEL_SHORT,       // one selector too few: data continues past the last selector
  D_ORIGPTR_EQ,       // primary index == block size
  D_ORIGPTR_BIG,      // primary index 0xFFFFFF
  D_EMPTY_BITMAP,
  D_OVER_CAP_RUN,     // run makes the block one byte larger than level*100000
  D_OVER_CAP_LIT,     // literal makes the block one byte larger than level*100000
  D_BLOCK_CRC,        // stored block CRC off by one bit
  D_BLOCK_CRC_COMP,   // ... and the stream CRC re-computed from the wrong block CRC
  D_STREAM_CRC,       // stored stream CRC off by one bit
  D_EOS_MAGIC,        // wrong end-of-stream magic
  D_BLOCK_MAGIC,      // wrong block magic
  D_TRUNC_ZERO_CRC,   // stream CRC ends in zero byte(s) which are cut off
  D_RUN4_END,         // block ends in four equal bytes without a count
  D_INCOMPLETE_USED,  // used table incomplete (missing code never occurs)   -- documented exception class
  D_OVERSUB_USED,     // used table oversubscribed
  D_EMPTY_BLOCK,      // EOB only
  D_HUGE_RUN,         // 23 RUNB symbols in a row
  D_NEXT_HEADER_DIGIT,  // a second stream header "BZh5" followed by junk
  D_TRUNCATE,         // cut somewhere
  D_BAD_CODE,         // bit pattern that is not a code word of an incomplete used table
  D_COUNT
};

inline const char *defect_name(int d) {
  static const char *n[] = {"none", "delta_low", "delta_high", "start_zero", "start_high", "selector_range", "ngroups_0",
                            "ngroups_1", "ngroups_7", "nsel_0", "nsel_short", "origptr_eq", "origptr_big", "empty_bitmap",
                            "over_cap_run", "over_cap_lit", "block_crc", "block_crc_comp", "stream_crc", "eos_magic",
                            "block_magic", "trunc_zero_crc", "run4_end", "incomplete_used", "oversub_used", "empty_block",
                            "huge_run", "next_header_digit", "truncate", "bad_code"};
  return d >= 0 && d < D_COUNT ? n[d] : "?";
}

struct GenOptions {
  int max_block = 4000;   // upper bound on the size of ordinary generated blocks (bytes before the BWT)
  bool allow_big = false; // allow blocks up to level*100000 (capacity boundary cases need them)
  int defect = -1;        // -1: valid file; -2: defect chosen by the tape; >0: that defect
  // symbol-level blocks (write_block_sym): 0 never, k > 0: about one block in k is built from a chosen sequence of
  // prefix-coded symbols instead of a chosen BWT input.  Such blocks are decodable by every bzip2 decoder but their
  // inverse BWT need not be a single cycle, so no encoder can produce them: they belong to the C05/C09/C10 domains
  // (the reference decides), not to C06's.
  int sym_blocks = 0;
  int plant = 0;          // symbol-level blocks: 0 tape decides, 1 none, 2 magic+32 bits, 3 magic+junk, 4 magic+nested block
};

struct GenResult {
  std::string bytes;      // the file
  std::string plain;      // plaintext of the valid version (meaningful when defect == none)
  int defect = 0;
  std::map<std::string, int> labels;
  std::string note;
  bool sym_used = false;  // at least one symbol-level block (validity is then for the reference to decide)
};

// ------------------------------------------------------------------ helpers

// sort all rotations of s (n >= 1); returns the rotation start indices in sorted order; ties (periodic strings)
// are broken by start index, like any stable conforming encoder may do (all tie orders give the same last column).
inline std::vector<uint32_t> sort_rotations(const std::vector<uint8_t> &s) {
  const uint32_t n = (uint32_t)s.size();
  std::vector<uint32_t> sa(n), rank(n), tmp(n);
  for (uint32_t i = 0; i < n; i++) sa[i] = i, rank[i] = s[i];
  for (uint32_t k = 1;; k <<= 1) {
    auto cmp = [&](uint32_t a, uint32_t b) {
      if (rank[a] != rank[b]) return rank[a] < rank[b];
      uint32_t ra = rank[(a + k) % n], rb = rank[(b + k) % n];
      return ra < rb;
    };
    std::stable_sort(sa.begin(), sa.end(), cmp);
    tmp[sa[0]] = 0;
    for (uint32_t i = 1; i < n; i++) tmp[sa[i]] = tmp[sa[i - 1]] + (cmp(sa[i - 1], sa[i]) ? 1 : 0);
    bool grew = tmp[sa[n - 1]] != rank[sa[n - 1]] || k == 1;
    uint32_t classes_before = 0;
    (void)classes_before;
    rank = tmp;
    // all distinct, or the partition stopped refining (periodic text: it never will again)
    if (rank[sa[n - 1]] == n - 1 || k >= n || (!grew && k > 1)) break;
  }
  // deterministic tie order
  std::stable_sort(sa.begin(), sa.end(), [&](uint32_t a, uint32_t b) { return rank[a] < rank[b]; });
  return sa;
}

// undo the initial run-length encoding; returns false when `pre` ends in four equal bytes without a count
inline bool unrle1(const std::vector<uint8_t> &pre, std::string &out) {
  int same = 0, last = -1;
  for (size_t i = 0; i < pre.size(); i++) {
    uint8_t c = pre[i];
    if (same == 4) {
      out.append((size_t)c, (char)last);
      same = 0;
      last = -1;
      continue;
    }
    out.push_back((char)c);
    if (c == last)
      same++;
    else
      same = 1, last = c;
  }
  return same != 4;
}

inline void randomise(std::vector<uint8_t> &b) {
  int rt = 0, rn = rnums()[0] - 2;
  for (size_t i = 0; i < b.size(); i++) {
    if (rn == 0) {
      b[i] ^= 1;
      rt = (rt + 1) & 511;
      rn = rnums()[rt];
    }
    rn--;
  }
}

// complete prefix code with `alpha` leaves, all depths <= 20.  policy: 0 balanced, 1 spine (deepest first),
// 2 random, 3 "two level".
inline std::vector<int> code_shape(int alpha, int policy, Tape &t) {
  std::vector<int> leaves{0};
  while ((int)leaves.size() < alpha) {
    size_t k = 0;
    int remaining = alpha - (int)leaves.size();
    (void)remaining;
    if (policy == 0) {
      k = std::min_element(leaves.begin(), leaves.end()) - leaves.begin();
    } else if (policy == 1) {
      // deepest leaf that can still be split
      int best = -1;
      for (size_t i = 0; i < leaves.size(); i++)
        if (leaves[i] < 20 && leaves[i] > best) best = leaves[i], k = i;
    } else {
      k = t.pick((uint32_t)leaves.size());
      if (leaves[k] >= 20) {
        for (k = 0; k < leaves.size() && leaves[k] >= 20; k++) {
        }
      }
    }
    int d = leaves[k];
    leaves[k] = d + 1;
    leaves.push_back(d + 1);
  }
  std::sort(leaves.begin(), leaves.end());
  return leaves;
}

struct Codes {
  std::vector<int> len;
  std::vector<uint32_t> code;
};
inline void assign_codes(Codes &c) {
  c.code.assign(c.len.size(), 0);
  uint32_t v = 0;
  for (int l = 1; l <= 20; l++) {
    for (size_t s = 0; s < c.len.size(); s++)
      if (c.len[s] == l) c.code[s] = v++;
    v <<= 1;
  }
}

// ------------------------------------------------------------------ one block

struct BlockPlan {
  std::vector<uint8_t> pre;  // BWT input (after the initial RLE, before randomisation)
  bool rand = false;
};

// first n symbols of the order-3 de Bruijn sequence over k letters (FKM algorithm), rotated by `rot`: every
// 3-gram occurs once per period, so the BWT output has (almost) no equal neighbours and the MTF stage produces
// (almost) no zero-runs longer than one: the block has as many prefix-coded symbols as a block can have.
inline std::vector<uint8_t> debruijn3(int k, size_t n, size_t rot) {
  std::vector<uint8_t> seq;
  const int order = 3;
  std::vector<int> a(k * order + 1, 0);
  std::function<void(int, int)> db = [&](int tt, int p) {
    if (tt > order) {
      if (order % p == 0)
        for (int i = 1; i <= p; i++) seq.push_back((uint8_t)a[i]);
    } else {
      a[tt] = a[tt - p];
      db(tt + 1, p);
      for (int j = a[tt - p] + 1; j < k; j++) {
        a[tt] = j;
        db(tt + 1, tt);
      }
    }
  };
  db(1, 1);
  std::vector<uint8_t> out(n);
  for (size_t i = 0; i < n; i++) out[i] = (uint8_t)(32 + seq[(i + rot) % seq.size()]);
  return out;
}

inline std::vector<uint8_t> gen_pre(Tape &t, int cap, const GenOptions &o, GenResult &R) {
  static const int sizes_small[] = {1, 2, 3, 5, 8, 13, 20, 50, 51, 100, 150, 151, 300, 700, 1500, 4000};
  uint32_t sc = t.pick(16);
  int n = sizes_small[sc];
  n = std::min(n, o.max_block);
  if (o.allow_big && t.flag(16)) {
    static const int d[] = {0, -1, -2, -5, -50, -1000};
    n = cap + d[t.pick(6)];
    R.labels["block_at_capacity"]++;
    if (t.pick(2)) {
      R.labels["fam_debruijn"]++;
      return debruijn3(97, (size_t)std::max(1, std::min(n, cap)), t.pick(65536));
    }
  }
  n = std::max(1, std::min(n, cap));
  std::vector<uint8_t> pre;
  pre.reserve(n + 8);
  int fam = t.pick(8);
  static const int alphas[] = {1, 2, 3, 4, 16, 100, 254, 256};
  switch (fam) {
    case 7: {  // bytes straight from the tape (raw control for fuzzers, small values when the tape is short)
      n = std::min(n, 100);
      for (int i = 0; i < n; i++) pre.push_back((uint8_t)t.byte());
      R.labels["fam_tape"]++;
      break;
    }
    case 1:
    case 2: {  // pseudo-random over k byte values
      int k = alphas[t.pick(8)];
      uint32_t x = 12345 + t.pick(65536) * 7919u;
      uint8_t base = (uint8_t)t.byte();
      for (int i = 0; i < n; i++) {
        x = x * 1664525u + 1013904223u;
        pre.push_back((uint8_t)(base + (x >> 16) % k));
      }
      R.labels["fam_random"]++;
      break;
    }
    case 3: {  // run structured: groups "cccc"+count with counts at the extremes, and shorter runs
      uint32_t x = 99 + t.pick(65536);
      while ((int)pre.size() < n) {
        x = x * 1664525u + 1013904223u;
        uint8_t c = (uint8_t)('a' + (x >> 20) % 5);
        int l = 1 + (x >> 10) % 4;
        for (int i = 0; i < l; i++) pre.push_back(c);
        if (l == 4) {
          static const int cnt[] = {0, 1, 2, 251, 254, 255, 97, 98};
          pre.push_back((uint8_t)cnt[(x >> 5) % 8]);
        }
      }
      pre.resize(n);
      R.labels["fam_runs"]++;
      break;
    }
    case 4: {  // periodic (all rotations of a period are equal: ties in the sort)
      int per = 1 + t.pick(7);
      uint8_t b0 = (uint8_t)t.byte();
      for (int i = 0; i < n; i++) pre.push_back((uint8_t)(b0 + (i % per) * 31));
      R.labels["fam_periodic"]++;
      break;
    }
    case 5: {  // all byte values present (alphabet 256, 16 bitmap ranges)
      for (int i = 0; i < n; i++) pre.push_back((uint8_t)(i * 167 + (i >> 8)));
      R.labels["fam_allbytes"]++;
      break;
    }
    case 6: {  // text-like, skewed
      uint32_t x = 7 + t.pick(65536);
      for (int i = 0; i < n; i++) {
        x = x * 1103515245u + 12345u;
        uint32_t r = (x >> 16) & 1023;
        int v = 0;
        while (r & 1) r >>= 1, v++;
        pre.push_back((uint8_t)("etaoinshrd \n"[v % 12]));
      }
      R.labels["fam_text"]++;
      break;
    }
    default:
    case 0: {  // one long run (all equal): a single zero-run after the MTF stage
      uint8_t c = (uint8_t)t.byte();
      for (int i = 0; i < n; i++) pre.push_back(c);
      R.labels["fam_allsame"]++;
      break;
    }
  }
  return pre;
}

struct Emit {
  BitWriter bw;
  uint32_t comb = 0;
};

struct BlockCtl {
  int defect = 0;  // defect to plant in this block (0 none)
};

// Writes one block.  Returns the block's plaintext through `plain`.
inline void write_block(Emit &E, Tape &t, int level, const GenOptions &o, GenResult &R, BlockCtl ctl,
                        std::string &plain) {
  const int cap = level * 100000;
  std::vector<uint8_t> pre;
  int D = ctl.defect;
  if (D == D_OVER_CAP_RUN || D == D_OVER_CAP_LIT) {
    // one byte more than the declared capacity
    pre.assign(cap + 1, (uint8_t)'z');
    if (D == D_OVER_CAP_LIT)
      for (int i = 0; i < cap + 1; i++) pre[i] = (uint8_t)("ab"[i & 1]);
    // keep the RLE1 tail legal
  } else if (D == D_HUGE_RUN || D == D_EMPTY_BLOCK) {
    pre.assign(3, (uint8_t)'q');
  } else {
    pre = gen_pre(t, cap, o, R);
    if (D == D_NONE && o.allow_big && t.flag(24)) {
      // exactly at capacity with a single run: the legal extreme next to D_OVER_CAP_RUN
      pre.assign(cap, (uint8_t)'z');
      R.labels["run_exact_capacity"]++;
    }
  }
  // legal tail for the initial RLE
  {
    std::string tmp;
    if (!unrle1(pre, tmp)) {
      if ((int)pre.size() < cap)
        pre.push_back((uint8_t)t.byte());
      else
        pre.back() = (uint8_t)(pre.back() + 1);
      tmp.clear();
      if (!unrle1(pre, tmp)) pre.back() = (uint8_t)(pre.back() + 1);
    }
  }
  if (D == D_RUN4_END) {
    uint8_t c = (uint8_t)(pre.back() + 1);
    for (int i = 0; i < 4; i++) pre.push_back(c);
  }
  // rotation freedom: make the primary index what the tape asks for
  uint32_t n = (uint32_t)pre.size();
  bool rnd = (D == D_NONE || D >= D_BLOCK_CRC) && t.flag(8);
  std::vector<uint8_t> sorted_in = pre;
  if (rnd) {
    randomise(sorted_in);
    R.labels[n > 617 ? "randomised_effective" : "randomised_short"]++;
  }
  std::vector<uint32_t> sa = sort_rotations(sorted_in);
  if (!rnd && D != D_RUN4_END && n > 1) {
    uint32_t how = t.pick(6);
    if (how >= 3) {
      uint32_t r = how == 3 ? n - 1 : how == 4 ? 0 : t.pick(n);
      // rotate so that the rotation of rank r becomes the text
      uint32_t st = sa[r];
      std::vector<uint8_t> rot(n);
      for (uint32_t i = 0; i < n; i++) rot[i] = pre[(st + i) % n];
      std::string tmp;
      if (unrle1(rot, tmp)) {
        pre = rot;
        sorted_in = pre;
        sa = sort_rotations(sorted_in);
        R.labels[how == 3 ? "origptr_last" : how == 4 ? "origptr_first" : "origptr_chosen"]++;
      }
    }
  }
  std::string blk_plain;
  unrle1(pre, blk_plain);
  Crc crc;
  for (unsigned char c : blk_plain) crc.add(c);
  uint32_t bcrc = crc.fin();
  // BWT
  std::vector<uint8_t> tt(n);
  uint32_t orig = 0;
  for (uint32_t i = 0; i < n; i++) {
    tt[i] = sorted_in[(sa[i] + n - 1) % n];
    if (sa[i] == 0) orig = i;
  }
  // for periodic texts several ranks hold a rotation equal to the text: any of them is a correct primary index
  // symbol map
  bool used[256] = {false};
  for (uint8_t c : tt) used[c] = true;
  if (D == D_NONE && t.flag(6)) {
    int extra = 1 + t.pick(8);
    for (int i = 0; i < extra; i++) used[t.byte()] = true;
    R.labels["bitmap_superset"]++;
  }
  std::vector<uint8_t> seq;
  for (int i = 0; i < 256; i++)
    if (used[i]) seq.push_back((uint8_t)i);
  const int n_in_use = (int)seq.size();
  const int alpha = n_in_use + 2;
  const int EOB = n_in_use + 1;
  // MTF + zero-run coding
  std::vector<uint16_t> syms;
  {
    uint8_t pos[256];
    uint8_t idx_of[256];
    for (int i = 0; i < n_in_use; i++) idx_of[seq[i]] = (uint8_t)i;
    for (int i = 0; i < n_in_use; i++) pos[i] = (uint8_t)i;
    uint64_t run = 0;
    auto flush = [&]() {
      while (run > 0) {
        if (run & 1) {
          syms.push_back(0);
          run = (run - 1) >> 1;
        } else {
          syms.push_back(1);
          run = (run - 2) >> 1;
        }
      }
    };
    for (uint32_t i = 0; i < n; i++) {
      uint8_t v = idx_of[tt[i]];
      int j = 0;
      while (pos[j] != v) j++;
      if (j == 0) {
        run++;
        continue;
      }
      flush();
      memmove(pos + 1, pos, j);
      pos[0] = v;
      syms.push_back((uint16_t)(j + 1));
    }
    flush();
  }
  if (D == D_HUGE_RUN) {
    syms.clear();
    for (int i = 0; i < 23; i++) syms.push_back(1);
  }
  if (D == D_EMPTY_BLOCK) syms.clear();
  syms.push_back((uint16_t)EOB);
  // tables and selectors
  int n_groups = 2 + t.pick(5);
  int need = (int)((syms.size() + 49) / 50);
  std::vector<uint8_t> sel(need);
  {
    int how = t.pick(4);
    for (int g = 0; g < need; g++) {
      if (how == 0)
        sel[g] = 0;
      else if (how == 1)
        sel[g] = (uint8_t)(g % n_groups);
      else if (how == 2)
        sel[g] = (uint8_t)(n_groups - 1 - (g % n_groups));
      else
        sel[g] = (uint8_t)t.pick(n_groups);
    }
    R.labels[how == 0 ? "selectors_constant" : how == 3 ? "selectors_random" : "selectors_cyclic"]++;
  }
  std::vector<bool> tused(n_groups, false);
  for (uint8_t s : sel) tused[s] = true;
  std::vector<uint32_t> freq(alpha, 0);
  for (uint16_t s : syms) freq[s]++;
  std::vector<Codes> tabs(n_groups);
  int bad_table = -1;
  for (int k = 0; k < n_groups; k++) {
    Codes &C = tabs[k];
    if (!tused[k]) {
      int how = t.pick(5);
      C.len.assign(alpha, 1);
      if (how == 0) {
        C.len = code_shape(alpha, 0, t);
        R.labels["unused_table_complete"]++;
      } else if (how == 1) {
        C.len.assign(alpha, 20);
        R.labels["unused_table_incomplete"]++;
      } else if (how == 2) {
        C.len.assign(alpha, 1);
        R.labels["unused_table_oversubscribed"]++;
      } else {
        for (int i = 0; i < alpha; i++) C.len[i] = 1 + t.pick(20);
        R.labels["unused_table_random"]++;
      }
      assign_codes(C);
      continue;
    }
    int policy = t.pick(4);
    std::vector<int> shape = code_shape(alpha, policy == 3 ? 2 : policy, t);
    // which symbol gets which length
    std::vector<int> order(alpha);
    std::iota(order.begin(), order.end(), 0);
    int perm = t.pick(4);
    if (perm == 0) {
      std::stable_sort(order.begin(), order.end(), [&](int a, int b) { return freq[a] > freq[b]; });
    } else if (perm == 1) {
      std::reverse(order.begin(), order.end());
    } else if (perm == 2) {
      for (int i = alpha - 1; i > 0; i--) std::swap(order[i], order[t.pick(i + 1)]);
    }
    C.len.assign(alpha, 0);
    for (int i = 0; i < alpha; i++) C.len[order[i]] = shape[i];
    int mx = *std::max_element(C.len.begin(), C.len.end());
    if (mx == 20) R.labels["code_len_20"]++;
    if (mx > 10) R.labels["code_len_gt10"]++;
    R.labels[policy == 0 ? "table_balanced" : policy == 1 ? "table_spine" : "table_random"]++;
    if ((D == D_INCOMPLETE_USED || D == D_BAD_CODE) && bad_table < 0) {
      // lengthen a symbol that does not occur (or, if all occur, the rarest... then it is a different defect)
      int victim = -1;
      for (int i = 0; i < alpha; i++)
        if (freq[i] == 0 && C.len[i] < 20) victim = i;
      if (victim >= 0) {
        C.len[victim]++;  // Kraft sum drops below 1
        bad_table = k;
      } else
        R.note += "no unused symbol to lengthen; ";
    }
    if (D == D_OVERSUB_USED && bad_table < 0) {
      int victim = -1;
      for (int i = 0; i < alpha; i++)
        if (C.len[i] > 1) victim = i;
      if (victim >= 0) {
        C.len[victim]--;
        bad_table = k;
      }
    }
    if ((D == D_DELTA_LOW || D == D_DELTA_HIGH) && bad_table < 0) bad_table = k;
    assign_codes(C);
  }
  int n_sel = need;
  {
    int how = t.pick(8);
    int room = 32767 - need;
    int extra = how < 4 ? 0 : how == 4 ? 1 : how == 5 ? (int)t.pick(64) : how == 6 ? std::max(0, 18002 - need) + (int)t.pick(3) - 1 : room;
    extra = std::max(0, std::min(extra, room));
    if (how == 7 && !o.allow_big) extra = std::min(extra, 300);
    n_sel = need + extra;
    for (int i = 0; i < extra; i++) sel.push_back((uint8_t)t.pick(n_groups));
    if (extra) R.labels["surplus_selectors"]++;
    if (n_sel > 18002) R.labels["selectors_gt18002"]++;
    if (n_sel == 32767) R.labels["selectors_32767"]++;
  }
  // ---- emit
  BitWriter &bw = E.bw;
  if (bw.nbits % 8) R.labels["block_unaligned"]++;
  bw.put(48, D == D_BLOCK_MAGIC ? 0x314159265358ull : 0x314159265359ull);
  uint32_t stored = bcrc;
  if (D == D_BLOCK_CRC || D == D_BLOCK_CRC_COMP) stored ^= 1u << t.pick(32);
  bw.put(32, stored);
  bw.put(1, rnd ? 1 : 0);
  uint32_t op = orig;
  if (D == D_ORIGPTR_EQ) op = n;
  if (D == D_ORIGPTR_BIG) op = 0xFFFFFF;
  bw.put(24, op);
  {
    uint32_t big = 0;
    for (int i = 0; i < 16; i++)
      for (int j = 0; j < 16; j++)
        if (used[i * 16 + j]) big |= 0x8000u >> i;
    if (D == D_EMPTY_BITMAP) big = 0;
    bw.put(16, big);
    for (int i = 0; i < 16; i++)
      if (big & (0x8000u >> i)) {
        uint32_t sm = 0;
        for (int j = 0; j < 16; j++)
          if (used[i * 16 + j]) sm |= 0x8000u >> j;
        bw.put(16, sm);
      }
  }
  int ng_field = n_groups;
  if (D == D_NGROUPS_0) ng_field = 0;
  if (D == D_NGROUPS_1) ng_field = 1;
  if (D == D_NGROUPS_7) ng_field = 7;
  bw.put(3, ng_field);
  int nsel_field = n_sel;
  if (D == D_NSEL_0) nsel_field = 0;
  if (D == D_NSEL_SHORT) {
    // needs >= 2 groups to be a defect of this kind; otherwise it degenerates to "no selectors"
    nsel_field = need - 1;
    sel.resize(need - 1);
    n_sel = need - 1;
  }
  bw.put(15, nsel_field);
  {
    uint8_t pos[6] = {0, 1, 2, 3, 4, 5};
    for (int i = 0; i < n_sel; i++) {
      int j = 0;
      while (pos[j] != sel[i]) j++;
      int jj = j;
      if (D == D_SELECTOR_RANGE && i == n_sel / 2) jj = n_groups;  // unary n_groups
      for (int k = 0; k < jj; k++) bw.put(1, 1);
      bw.put(1, 0);
      uint8_t v = pos[j];
      for (; j > 0; j--) pos[j] = pos[j - 1];
      pos[0] = v;
    }
  }
  for (int k = 0; k < n_groups; k++) {
    const Codes &C = tabs[k];
    int start_how = t.pick(4);
    int cur = start_how == 0 ? C.len[0] : start_how == 1 ? 1 : start_how == 2 ? 20 : 1 + (int)t.pick(20);
    bool zig = t.flag(3);
    bool planted = false;
    int plant_at = (k == bad_table && (D == D_DELTA_LOW || D == D_DELTA_HIGH)) ? (int)t.pick(alpha) : -1;
    if (k == std::max(0, bad_table) && D == D_START_ZERO) cur = 0, zig = false;
    if (k == std::max(0, bad_table) && D == D_START_HIGH) cur = 21 + t.pick(11), zig = false;
    bw.put(5, cur);
    if (zig) R.labels["delta_zigzag"]++;
    for (int i = 0; i < alpha; i++) {
      int want = C.len[i];
      if (zig && cur >= 1 && cur <= 20) {
        int detours = t.pick(3);
        for (int d2 = 0; d2 < detours; d2++) {
          bool up = t.pick(2);
          if (up && cur < 20) {
            bw.put(2, 2);
            bw.put(2, 3);
            if (cur == 19) R.labels["delta_touches_20"]++;
          } else if (!up && cur > 1) {
            bw.put(2, 3);
            bw.put(2, 2);
            if (cur == 2) R.labels["delta_touches_1"]++;
          }
        }
      }
      if (i == plant_at) {
        // leave the legal range by one and come straight back; everything else about the table is correct
        if (D == D_DELTA_LOW) {
          while (cur > 1) bw.put(2, 3), cur--;
          bw.put(2, 3);
          bw.put(2, 2);
        } else {
          while (cur < 20) bw.put(2, 2), cur++;
          bw.put(2, 2);
          bw.put(2, 3);
        }
        planted = true;
      }
      while (cur < want) bw.put(2, 2), cur++;
      while (cur > want) bw.put(2, 3), cur--;
      bw.put(1, 0);
    }
    if (k == bad_table && (D == D_DELTA_LOW || D == D_DELTA_HIGH) && !planted) R.note += "delta defect not planted; ";
  }
  // coded symbols
  {
    size_t g = 0;
    int left = 0;
    const Codes *C = nullptr;
    for (size_t i = 0; i < syms.size(); i++) {
      if (left == 0) {
        size_t gi = std::min(g, sel.size() ? sel.size() - 1 : 0);
        C = &tabs[sel.empty() ? 0 : sel[gi]];
        g++;
        left = 50;
      }
      left--;
      if (D == D_BAD_CODE && bad_table >= 0 && C == &tabs[bad_table] && i == syms.size() / 2) {
        // the all-ones pattern of length 20 is not a code word of an incomplete table
        bw.put(20, 0xFFFFF);
        D = -D_BAD_CODE;  // planted
      }
      bw.put(C->len[syms[i]], C->code[syms[i]]);
    }
  }
  uint32_t c_for_stream = (D == D_BLOCK_CRC_COMP) ? stored : bcrc;
  E.comb = ((E.comb << 1) | (E.comb >> 31)) ^ c_for_stream;
  plain += blk_plain;
  R.labels["blocks"]++;
  if (need >= 18001) R.labels["groups_18001"]++;
  if (need == 18002) R.labels["groups_18002"]++;
  if (n_in_use == 256) R.labels["alphabet_256"]++;
  if (n_in_use == 1) R.labels["alphabet_1"]++;
  if (n_groups == 6) R.labels["tables_6"]++;
  if (n_groups == 2) R.labels["tables_2"]++;
}

// ------------------------------------------------------------------ symbol-level block
//
// The block is defined by its sequence of prefix-coded symbols: chosen tables (so that chosen symbols have the longest
// codes), runs of one long-coded symbol (groups of fifty 20-bit codes: the widest a group can be), random symbols, and
// PLANTED BIT STRINGS: an arbitrary bit string is parsed into code words of the table in effect (a complete prefix code
// parses every bit string), so the 48-bit block-header pattern -- followed by junk, by 32 arbitrary bits, or by a whole
// nested block -- appears verbatim inside the coded data.  EOB has the all-ones code of maximal length so that a plant
// does not end the block by accident.  The BWT output follows from the symbols, the primary index is chosen, and the
// plaintext is whatever the format's decoding rules make of it.
inline bool write_block_sym(Emit &E, Tape &t, int level, const GenOptions &o, GenResult &R, std::string &plain,
                            const std::string &nested_bits) {
  const uint32_t cap = (uint32_t)std::min(level * 100000, std::max(200, o.max_block));
  static const int nus[] = {2, 3, 4, 20, 100, 254, 256, 20};
  int n_in_use = nus[t.pick(8)];
  std::vector<uint8_t> seq;
  {
    uint8_t base = (uint8_t)t.byte();
    int stride = n_in_use == 256 ? 1 : 1 + t.pick(3) * 0;
    for (int i = 0; i < n_in_use; i++) seq.push_back((uint8_t)(base + i * stride));
    std::sort(seq.begin(), seq.end());
  }
  const int alpha = n_in_use + 2, EOB = n_in_use + 1;
  int n_groups = 2 + t.pick(5);
  // hot symbols: MTF indices that get the longest codes
  std::vector<int> hot;
  int nhot = 1 + t.pick(3);
  for (int i = 0; i < nhot && (int)hot.size() < n_in_use - 1; i++) {
    int h = 2 + t.pick(n_in_use - 1);
    if (std::find(hot.begin(), hot.end(), h) == hot.end() && h < EOB) hot.push_back(h);
  }
  if (hot.empty()) hot.push_back(2);
  std::vector<Codes> tabs(n_groups);
  std::vector<detail::Canon> canon(n_groups);
  for (int k = 0; k < n_groups; k++) {
    int policy = t.pick(3);  // 0 balanced 1 spine 2 random
    std::vector<int> shape = code_shape(alpha, policy, t);
    std::vector<int> order;
    for (int v = 0; v < alpha; v++)
      if (v != EOB && std::find(hot.begin(), hot.end(), v) == hot.end()) order.push_back(v);
    if (t.pick(2))
      for (int i = (int)order.size() - 1; i > 0; i--) std::swap(order[i], order[t.pick(i + 1)]);
    for (int h : hot) order.push_back(h);
    order.push_back(EOB);
    tabs[k].len.assign(alpha, 0);
    for (int i = 0; i < alpha; i++) tabs[k].len[order[i]] = shape[i];
    assign_codes(tabs[k]);
    canon[k].build(tabs[k].len);
    if (shape.back() == 20) R.labels["sym_code_len_20"]++;
  }
  // symbols
  std::vector<uint16_t> syms;
  std::vector<uint8_t> sel;
  uint64_t size = 0, run = 0;
  int run_bits = 0;
  int sel_how = t.pick(3);
  auto table_at = [&](size_t pos) -> int {
    size_t g = pos / 50;
    while (sel.size() <= g) sel.push_back((uint8_t)(sel_how == 0 ? 0 : sel_how == 1 ? sel.size() % n_groups : t.pick(n_groups)));
    return sel[g];
  };
  auto push = [&](int v) -> bool {  // returns false when the block would exceed its limit
    if (v < 2) {
      if (run_bits >= 16) return false;
      uint64_t add = (uint64_t)(v + 1) << run_bits;
      if (size + run + add > cap) return false;
      run += add;
      run_bits++;
    } else {
      if (size + run + 1 > cap) return false;
      size += run + 1;
      run = 0;
      run_bits = 0;
    }
    table_at(syms.size());
    syms.push_back((uint16_t)v);
    return true;
  };
  auto plant_bits = [&](const std::string &bits) {
    // bits: string of '0'/'1'
    size_t i = 0;
    bool aborted = false;
    while (i < bits.size() && !aborted) {
      const detail::Canon &C = canon[table_at(syms.size())];
      uint32_t code = 0;
      int found = -1;
      for (int l = 1; l <= 20; l++) {
        int b = i < bits.size() ? bits[i] == '1' : 0;  // a code word cut off by the end of the plant is completed with 0s
        i++;
        code = (code << 1) | (uint32_t)b;
        if (l >= C.minl && C.count[l] && code >= C.first_code[l] && code - C.first_code[l] < C.count[l]) {
          found = C.perm[C.index[l] + (code - C.first_code[l])];
          break;
        }
      }
      if (found < 0 || found == EOB || !push(found)) aborted = true;
    }
    R.labels[aborted ? "plant_cut_short" : "plant_complete"]++;
  };
  int nseg = 1 + t.pick(6);
  for (int sgi = 0; sgi < nseg; sgi++) {
    int kind = t.pick(4);
    if (kind == 0) {  // the widest groups: one long-coded symbol again and again
      static const int reps[] = {50, 100, 150, 49, 51, 200, 400, 37};
      int k = reps[t.pick(8)], h = hot[t.pick((uint32_t)hot.size())];
      for (int i = 0; i < k; i++)
        if (!push(h)) break;
      R.labels["sym_hot_runs"]++;
    } else if (kind == 1) {
      int k = 1 + t.pick(300);
      for (int i = 0; i < k; i++) {
        int v = t.pick(8) == 0 ? (int)t.pick(2) : 2 + (int)t.pick(n_in_use - 1);
        if (!push(v)) break;
      }
    } else if (kind == 2) {
      int k = 1 + t.pick(60), v = 2 + (int)t.pick(n_in_use - 1);
      for (int i = 0; i < k; i++)
        if (!push(i % 2 ? v : 2)) break;
    } else {
      int what = o.plant ? o.plant : 1 + (int)t.pick(4);
      std::string bits;
      for (int i = 47; i >= 0; i--) bits.push_back(((0x314159265359ull >> i) & 1) ? '1' : '0');
      if (what == 1)
        bits.clear();
      else if (what == 2)
        for (int i = 0; i < 32; i++) bits.push_back(t.pick(2) ? '1' : '0');
      else if (what == 3) {
        int k = 40 + t.pick(400);
        for (int i = 0; i < k; i++) bits.push_back(t.pick(2) ? '1' : '0');
      } else
        bits = nested_bits;  // starts with its own block magic
      if (!bits.empty()) {
        plant_bits(bits);
        R.labels[what == 2 ? "plant_magic+32" : what == 3 ? "plant_magic+junk" : "plant_nested_block"]++;
      }
    }
  }
  if (syms.empty() || (size + run) == 0) push(2);
  table_at(syms.size());
  syms.push_back((uint16_t)EOB);
  // BWT output from the symbols
  std::vector<uint8_t> tt;
  {
    std::vector<uint8_t> m(n_in_use);
    for (int i = 0; i < n_in_use; i++) m[i] = (uint8_t)i;
    uint64_t r = 0;
    int rb = 0;
    auto flush = [&]() {
      tt.insert(tt.end(), (size_t)r, seq[m[0]]);
      r = 0;
      rb = 0;
    };
    for (uint16_t v : syms) {
      if (v == EOB) break;
      if (v < 2) {
        r += (uint64_t)(v + 1) << rb;
        rb++;
        continue;
      }
      flush();
      int idx = v - 1;
      uint8_t x = m[idx];
      memmove(&m[1], &m[0], idx);
      m[0] = x;
      tt.push_back(seq[x]);
    }
    flush();
  }
  const uint32_t n = (uint32_t)tt.size();
  if (n == 0) return false;
  // primary index + decoding by the format's rule (n steps along the permutation)
  std::string blk_plain;
  uint32_t orig = 0;
  bool ok = false;
  for (int attempt = 0; attempt < 6 && !ok; attempt++) {
    orig = t.pick(n);
    std::vector<uint32_t> cf(257, 0), T2(n);
    for (uint32_t i = 0; i < n; i++) cf[tt[i] + 1]++;
    for (int i = 0; i < 256; i++) cf[i + 1] += cf[i];
    for (uint32_t i = 0; i < n; i++) T2[cf[tt[i]]++] = i;
    std::vector<uint8_t> pre(n);
    uint32_t pp = T2[orig];
    for (uint32_t i = 0; i < n; i++) {
      pre[i] = tt[pp];
      pp = T2[pp];
    }
    blk_plain.clear();
    ok = unrle1(pre, blk_plain);
  }
  if (!ok) R.labels["sym_block_ends_in_run4(invalid)"]++;
  Crc crc;
  for (unsigned char c : blk_plain) crc.add(c);
  uint32_t bcrc = crc.fin();
  // emit
  BitWriter &bw = E.bw;
  bw.put(48, 0x314159265359ull);
  bw.put(32, bcrc);
  bw.put(1, 0);
  bw.put(24, orig);
  {
    bool used[256] = {false};
    for (uint8_t c : seq) used[c] = true;
    uint32_t big = 0;
    for (int i = 0; i < 16; i++)
      for (int j = 0; j < 16; j++)
        if (used[i * 16 + j]) big |= 0x8000u >> i;
    bw.put(16, big);
    for (int i = 0; i < 16; i++)
      if (big & (0x8000u >> i)) {
        uint32_t sm = 0;
        for (int j = 0; j < 16; j++)
          if (used[i * 16 + j]) sm |= 0x8000u >> j;
        bw.put(16, sm);
      }
  }
  bw.put(3, n_groups);
  bw.put(15, (uint32_t)sel.size());
  {
    uint8_t pos[6] = {0, 1, 2, 3, 4, 5};
    for (uint8_t sv : sel) {
      int j = 0;
      while (pos[j] != sv) j++;
      for (int k = 0; k < j; k++) bw.put(1, 1);
      bw.put(1, 0);
      uint8_t v = pos[j];
      for (; j > 0; j--) pos[j] = pos[j - 1];
      pos[0] = v;
    }
  }
  for (int k = 0; k < n_groups; k++) {
    int cur = tabs[k].len[0];
    bw.put(5, cur);
    for (int i = 0; i < alpha; i++) {
      while (cur < tabs[k].len[i]) bw.put(2, 2), cur++;
      while (cur > tabs[k].len[i]) bw.put(2, 3), cur--;
      bw.put(1, 0);
    }
  }
  for (size_t i = 0; i < syms.size(); i++) {
    const Codes &C = tabs[sel[i / 50]];
    bw.put(C.len[syms[i]], C.code[syms[i]]);
  }
  E.comb = ((E.comb << 1) | (E.comb >> 31)) ^ bcrc;
  plain += blk_plain;
  R.labels["sym_blocks"]++;
  R.sym_used = true;
  return ok;
}

// ------------------------------------------------------------------ whole file

inline GenResult generate(const uint8_t *tape, size_t len, const GenOptions &o) {
  GenResult R;
  Tape t(tape, len);
  int defect = o.defect;
  if (defect == -2) defect = 1 + t.pick(D_COUNT - 1);
  if (defect < 0) defect = 0;
  R.defect = defect;
  static const int ns[] = {1, 1, 1, 2, 2, 3, 5, 1};
  int nstreams = ns[t.pick(8)];
  // where the defect goes
  int dstream = defect ? (int)t.pick(nstreams) : -1;
  Emit E;
  bool planted = false;
  for (int s = 0; s < nstreams; s++) {
    int level = 1 + t.pick(9);
    static const int nb[] = {1, 1, 1, 2, 2, 3, 0, 6};
    int nblocks = nb[t.pick(8)];
    if (defect == D_TRUNC_ZERO_CRC && s == nstreams - 1) nblocks = 0;  // an empty stream's CRC is 00 00 00 00
    bool stream_defect = (s == dstream);
    bool block_level = defect >= D_DELTA_LOW && defect <= D_OVER_CAP_LIT;
    block_level = block_level || defect == D_BLOCK_CRC || defect == D_BLOCK_CRC_COMP || defect == D_BLOCK_MAGIC ||
                  defect == D_RUN4_END || defect == D_INCOMPLETE_USED || defect == D_OVERSUB_USED ||
                  defect == D_EMPTY_BLOCK || defect == D_HUGE_RUN || defect == D_BAD_CODE;
    if (stream_defect && block_level && nblocks == 0) nblocks = 1;
    if (stream_defect && (defect == D_OVER_CAP_RUN || defect == D_OVER_CAP_LIT)) level = 1 + (level % 2);
    int dblock = stream_defect && block_level ? (int)t.pick(nblocks) : -1;
    E.bw.align();
    E.bw.put(24, 0x425A68);
    E.bw.put(8, 0x30 + level);
    E.comb = 0;
    if (nblocks == 0) R.labels["empty_stream"]++;
    for (int b = 0; b < nblocks; b++) {
      BlockCtl ctl;
      if (b == dblock) ctl.defect = defect, planted = true;
      if (o.sym_blocks > 0 && b != dblock && t.pick(o.sym_blocks) == 0) {
        // a complete small block, to be planted inside the coded data of the symbol-level block
        std::string nested;
        {
          Emit E2;
          GenResult R2;
          GenOptions o2 = o;
          o2.max_block = 60;
          o2.allow_big = false;
          std::string p2;
          write_block(E2, t, level, o2, R2, BlockCtl(), p2);
          for (uint64_t i = 0; i < E2.bw.nbits; i++) nested.push_back((E2.bw.out[i >> 3] >> (7 - (i & 7))) & 1 ? '1' : '0');
        }
        write_block_sym(E, t, level, o, R, R.plain, nested);
        continue;
      }
      write_block(E, t, level, o, R, ctl, R.plain);
    }
    E.bw.put(48, (stream_defect && defect == D_EOS_MAGIC) ? 0x177245385091ull : 0x177245385090ull);
    uint32_t sc = E.comb;
    if (stream_defect && defect == D_STREAM_CRC) sc ^= 1u << t.pick(32);
    if (stream_defect && (defect == D_EOS_MAGIC || defect == D_STREAM_CRC)) planted = true;
    E.bw.put(32, sc);
    R.labels["streams"]++;
    R.labels[std::string("level") + char('0' + level)]++;
  }
  E.bw.align();
  std::string out((const char *)E.bw.out.data(), E.bw.out.size());
  if (defect == D_TRUNC_ZERO_CRC) {
    // cut the zero byte(s) the last stream CRC ends with (only a defect when there are some)
    size_t k = 0;
    while (k < 4 && out.size() > k && out[out.size() - 1 - k] == 0) k++;
    if (k) out.resize(out.size() - (1 + t.pick((uint32_t)k))), planted = true;
  } else if (defect == D_NEXT_HEADER_DIGIT) {
    out += "BZh";
    out.push_back((char)('1' + t.pick(9)));
    int j = t.pick(24);
    for (int i = 0; i < j; i++) out.push_back((char)t.byte());
    planted = true;
  } else if (defect == D_TRUNCATE) {
    size_t cut = out.size() - 1 - t.pick((uint32_t)std::max<size_t>(1, out.size()));
    out.resize(cut);
    planted = true;
  } else if (defect == D_NONE) {
    // trailing data that must be ignored: anything that does not begin with BZh[1-9]
    int how = t.pick(12);
    static const char *tails[] = {"", "", "", "", "\n", "B", "BZ", "BZh", "BZh0", "BZhA", "x", "garbage BZh9"};
    if (how == 4) {
      int k = 1 + t.pick(8);
      out.append((size_t)k, '\0');
    } else
      out += tails[how];
    if (how >= 4) R.labels["trailing_data"]++;
  }
  if (defect && !planted) R.note += "defect not planted; ";
  R.bytes = out;
  return R;
}

}  // namespace gen
}  // namespace bzkit
