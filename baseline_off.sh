#!/bin/bash
# Runs the repository's own test suite with the verification guard OFF (KJN_LBZIP2_VERIF is not defined by the project's
# build): configure, build, ctest.  Extra arguments are passed on to ctest (e.g. --output-junit FILE).
set -e
cmake -G Ninja -S /repo -B /repo/_build -DCMAKE_BUILD_TYPE=RelWithDebInfo > /dev/null
cmake --build /repo/_build > /dev/null
exec ctest --test-dir /repo/_build -j8 --timeout 900 "$@"
